"""C11 translated BODIES: Python `ast` -> Lean (lean/Mouette/Generated/C11Src.lean), re-extracted on every run from
$MOUETTE_REPO/mouette/spatial/kdtree.py.  Vocabulary: lean/Mouette/Model/KDSource.lean (what every numpy / deque /
PriorityQueue construct is read as); bridges to the flat model `buildBFS` / `queryFlat` / `radiusFlat`: Props/C11S.lean.

Every function on the whitelist is read IMPERATIVELY, statement by statement, into a Lean definition:

  `KDTree.Leaf.size`       leafSize      : Pending -> Nat
  `KDTree._new_leaf`       newLeaf       : BSt -> axis -> parent -> points -> (ghost path) -> BSt x Pending
  `KDTree._split_points`   splitPoints   : P -> (fp = `self._find_pivot`) -> pt_idx -> axis -> Rat x List Nat x List Nat
  `KDTree.is_leaf`         isLeaf        : nodes -> id -> Option Bool                 (`none` = IndexError)
  `KDTree.__init__`        initLoop<k>Cond/Body/Loop, init : ... -> fuel -> Option BSt   (`none` = exception / out of fuel)
  `KDTree.query`           query<..>, query : P -> nodes -> pt -> k -> fuel -> Option (List Nat)
  `KDTree.query_radius`    radius<..>, queryRadius : P -> nodes -> pt -> r2 -> fuel -> Option (List Nat)
  dataclass field orders of `KDTree.Node` / `KDTree.Leaf` (used to read the constructor calls), `np.array(points)` copy.

Statement forms: `x = e`; `a, b, c = e`; `x.f = e` / `x.f, y.g = e1, e2` (record update of a local); `a[i] = e` (local array);
`self.nodes.append(e)`; `self._nid += e`; `q.append(e)` / `x = q.popleft()` / `x = q.pop()` on a local deque (a deque used
with append+popleft is a FIFO list, with append+pop a stack; anything else is refused); `found.push(i, -d)` / `found.pop()`;
`n += e`, `n -= e`, `l += [..]`; `if/else`, `if c: continue`; `while c: body` (-> `<f>Loop<k>Cond/Body/Loop` on a fuel
argument, loop-carried variables = the variables the body assigns); `for x in <list>: body` / `for a, b in sorted([..])`
(-> `List.foldl`); `return e`; `raise` under a guard of the prologue.
Tolerated respellings (normalised away, the generated text does not change): renamed locals only change bound names
(the bridges are closed terms: alpha-equivalent); `a > b` = `b < a`; `a >= b` = `b <= a`; `not a <= b` = `b < a` ...;
`x = x + e` = `x += e`; `len(q) > 0` = `len(q) != 0` = `q` (truth value) = `0 < len(q)`; docstrings, comments, annotations.
Anything else raises TranslateError -> the site is a broken obligation -> failing-input search (props/c11.py)."""
import ast
import copy

from .. import translate as T
from ..translate import TranslateError

FILE = "mouette/spatial/kdtree.py"

TY = {"nat": "Nat", "rat": "Rat", "eq": "EQ", "bool": "Bool", "natlist": "List Nat", "ratlist": "List Rat",
      "boollist": "List Bool", "eqlist": "List EQ", "leaf": "Pending", "node": "SNode", "fnode": "FNode", "box": "Box",
      "leafq": "List Pending", "natq": "List Nat", "pq": "List Cand", "pt": "Pt", "onat": "Option Nat", "state": "BSt",
      "pairlist": "List (EQ × Nat)", "pair": "EQ × Nat", "triple": "Rat × List Nat × List Nat"}

LEAF_ATTR = {"id": ("id", "nat"), "split_axis": ("axis", "nat"), "parent": ("parent", "onat"), "points": ("idx", "natlist"),
             "bb": ("box", "box")}
NODE_ATTR = {"id": ("id", "nat"), "split_axis": ("axis", "nat"), "parent": ("parent", "onat"), "split_value": ("split", "rat"),
             "left": ("left", "nat"), "right": ("right", "nat"), "bb": ("box", "box")}
FNODE_ATTR = {"points": ("points", "natlist"), "left": ("left", "nat"), "right": ("right", "nat"), "bb": ("box", "box")}
BOX_ATTR = {"mini": ("lo", "eqlist"), "maxi": ("hi", "eqlist")}


# ------------------------------------------------------------------------------------------------------------------
# normalisation
# ------------------------------------------------------------------------------------------------------------------
def _callfree(n):
    return not any(isinstance(x, ast.Call) for x in ast.walk(n))


class Norm(ast.NodeTransformer):
    def visit_UnaryOp(self, n):
        self.generic_visit(n)
        if isinstance(n.op, ast.Not) and isinstance(n.operand, ast.Compare) and len(n.operand.ops) == 1:
            c = n.operand
            flip = {ast.Eq: ast.NotEq, ast.NotEq: ast.Eq, ast.Lt: ast.GtE, ast.GtE: ast.Lt, ast.Gt: ast.LtE, ast.LtE: ast.Gt}
            if type(c.ops[0]) in flip:
                return self.visit_Compare(ast.copy_location(ast.Compare(c.left, [flip[type(c.ops[0])]()], c.comparators), n), False)
        return n

    def visit_Compare(self, n, recurse=True):
        if recurse: self.generic_visit(n)
        if len(n.ops) == 1:
            op, a, b = n.ops[0], n.left, n.comparators[0]
            if isinstance(op, (ast.Gt, ast.GtE)):
                return ast.copy_location(ast.Compare(b, [ast.Lt() if isinstance(op, ast.Gt) else ast.LtE()], [a]), n)
        return n

    def visit_Assign(self, n):
        self.generic_visit(n)
        if len(n.targets) == 1 and isinstance(n.value, ast.BinOp) and isinstance(n.value.op, (ast.Add, ast.Sub)):
            t, v = n.targets[0], n.value
            if isinstance(t, (ast.Name, ast.Attribute)) and ast.unparse(v.left) == ast.unparse(t):
                return ast.copy_location(ast.AugAssign(t, v.op, v.right), n)
            if isinstance(t, (ast.Name, ast.Attribute)) and isinstance(v.op, ast.Add) and ast.unparse(v.right) == ast.unparse(t) \
                    and _callfree(v.left) and not isinstance(v.left, ast.List):
                return ast.copy_location(ast.AugAssign(t, v.op, v.left), n)
        return n

    def visit_AnnAssign(self, n):
        self.generic_visit(n)
        if n.value is None: return None
        return ast.copy_location(ast.Assign([n.target], n.value), n)


def _strip(stmts):
    return [s for s in stmts if not (isinstance(s, ast.Pass) or (isinstance(s, ast.Expr) and isinstance(s.value, ast.Constant)))]


def _body(fn):
    fn = Norm().visit(copy.deepcopy(fn))
    ast.fix_missing_locations(fn)
    return _strip(fn.body)


def _is_self(n, attr=None):
    return isinstance(n, ast.Attribute) and isinstance(n.value, ast.Name) and n.value.id == "self" and (attr is None or n.attr == attr)


def _name(n, ident=None):
    return isinstance(n, ast.Name) and (ident is None or n.id == ident)


def _call(n, fname=None):
    """call of a plain or dotted name; returns the dotted name or None"""
    if not isinstance(n, ast.Call): return None
    try:
        d = ast.unparse(n.func)
    except Exception:  # noqa
        return None
    return d if (fname is None or d == fname) else None


def ind(text, k=2):
    pad = " " * k
    return "\n".join(pad + l if l else l for l in text.split("\n"))


def dataclass_fields(cls):
    """[(field, has_default)] of a @dataclass class body, in declaration order"""
    out = []
    for st in cls.body:
        if isinstance(st, ast.AnnAssign) and isinstance(st.target, ast.Name):
            out.append((st.target.id, st.value is not None))
    return out


# ------------------------------------------------------------------------------------------------------------------
# the compiler
# ------------------------------------------------------------------------------------------------------------------
class Fn:
    """one function being compiled"""

    def __init__(self, unit, pyname, lean, params, fixed, ret, nodes_expr=None, state=False, find_pivot=None, fuel=None):
        self.u = unit
        self.py = pyname
        self.lean = lean
        self.fn = unit.methods[pyname]
        a = self.fn.args
        names = [x.arg for x in a.args]
        if a.vararg or a.kwarg or a.kwonlyargs or a.posonlyargs or not names or names[0] != "self":
            raise TranslateError(f"{pyname}: unsupported signature")
        if len(names) - 1 != len(params):
            raise TranslateError(f"{pyname}: expected {len(params)} parameters after self, found {names[1:]}")
        self.pnames = names[1:]
        self.ptypes = params
        self.env = {p: t for p, t in zip(self.pnames, params)}
        self.fixed = fixed              # Lean binder text of the context parameters
        self.ret = ret
        self.nodes_expr = nodes_expr    # how `self.nodes` is read
        self.state = state              # True: `s : BSt` is threaded
        self.find_pivot = find_pivot    # Lean term for `self._find_pivot`
        self.fuel = fuel
        self.deques = {}
        self.aux = []
        self.ntmp = 0
        self.nloop = 0
        self.pre = []                   # pre-bindings of the statement being compiled
        self.ghost = {}                 # local name -> ghost path term (children of a split)
        self.fixed_args = ""
        self.scan_deques()

    # -- helpers --------------------------------------------------------------------------------------------------
    def tmp(self):
        self.ntmp += 1
        return f"t{self.ntmp}"

    def v(self, name):
        return "v_" + name

    def scan_deques(self):
        made = set()
        for n in ast.walk(self.fn):
            if isinstance(n, ast.Assign) and len(n.targets) == 1 and _name(n.targets[0]) and _call(n.value) in ("deque", "collections.deque") \
                    and not n.value.args:
                made.add(n.targets[0].id)
        for q in made:
            used = set()
            for n in ast.walk(self.fn):
                if isinstance(n, ast.Attribute) and _name(n.value, q):
                    used.add(n.attr)
            if used == {"append", "popleft"}: self.deques[q] = "fifo"
            elif used == {"append", "pop"}: self.deques[q] = "stack"
            else: raise TranslateError(f"{self.py}: deque `{q}` is used with {sorted(used)} (understood: append+popleft, append+pop)")

    # -- expressions ----------------------------------------------------------------------------------------------
    def coerce(self, txt, ty, want):
        if ty == want: return txt
        if ty == "rat" and want == "eq": return f"(fin {txt})"
        if ty == "nat" and want == "onat": return f"(some {txt})"
        raise TranslateError(f"{self.py}: cannot read a value of type {ty} as {want}: {txt[:60]}")

    def E(self, n):
        """expression -> (lean text, type tag)"""
        if isinstance(n, ast.Constant):
            if isinstance(n.value, bool): return ("true" if n.value else "false"), "bool"
            if isinstance(n.value, int): return str(n.value), "nat"
            if n.value is None: return "none", "onat"
            raise TranslateError(f"{self.py}: constant {n.value!r}")
        if isinstance(n, ast.Name):
            if n.id not in self.env: raise TranslateError(f"{self.py}: unknown name `{n.id}`")
            return self.v(n.id), self.env[n.id]
        if isinstance(n, ast.Attribute):
            return self.attr(n)
        if isinstance(n, ast.Subscript):
            return self.subscript(n)
        if isinstance(n, ast.Call):
            return self.call(n)
        if isinstance(n, ast.BinOp):
            return self.binop(n)
        if isinstance(n, ast.UnaryOp):
            if isinstance(n.op, ast.Not):
                t, ty = self.E(n.operand)
                if ty != "bool": raise TranslateError(f"{self.py}: `not` of a non-boolean")
                return f"(!{t})", "bool"
            if isinstance(n.op, ast.Invert):
                t, ty = self.E(n.operand)
                if ty != "boollist": raise TranslateError(f"{self.py}: `~` of something that is not a boolean mask")
                return f"(maskNot {t})", "boollist"
            if isinstance(n.op, ast.USub) and ast.unparse(n.operand).endswith(".front.priority"):
                q = n.operand.value.value
                t, ty = self.E(q)
                if ty != "pq": raise TranslateError(f"{self.py}: `.front.priority` of something that is not the priority queue")
                return f"(pqFrontDist {t})", "rat"
            raise TranslateError(f"{self.py}: unary operator in `{ast.unparse(n)}`")
        if isinstance(n, ast.BoolOp):
            parts = []
            for x in n.values:
                t, ty = self.E(x)
                if ty != "bool": raise TranslateError(f"{self.py}: boolean operator on a non-boolean `{ast.unparse(x)}`")
                parts.append(t)
            return "(" + (" && " if isinstance(n.op, ast.And) else " || ").join(parts) + ")", "bool"
        if isinstance(n, ast.Compare):
            return self.compare(n)
        if isinstance(n, ast.IfExp):
            c, cty = self.E(n.test)
            a, aty = self.E(n.body)
            b, bty = self.E(n.orelse)
            if cty != "bool": raise TranslateError(f"{self.py}: condition of a conditional expression is not boolean")
            ty = aty if aty == bty else "eq" if {aty, bty} == {"rat", "eq"} else None
            if ty is None: raise TranslateError(f"{self.py}: branches of a conditional expression have types {aty}, {bty}")
            return f"(if {c} then {self.coerce(a, aty, ty)} else {self.coerce(b, bty, ty)})", ty
        if isinstance(n, ast.Tuple) and len(n.elts) == 2:
            a, aty = self.E(n.elts[0]); b, bty = self.E(n.elts[1])
            if aty in ("eq", "rat") and bty == "nat":
                return f"({self.coerce(a, aty, 'eq')}, {b})", "pair"
        if isinstance(n, ast.ListComp):
            return self.listcomp(n)
        if isinstance(n, ast.List):
            if not n.elts: raise TranslateError(f"{self.py}: empty list literal outside an assignment")
            parts = [self.E(x) for x in n.elts]
            if all(ty == "nat" for _, ty in parts): return "[" + ", ".join(t for t, _ in parts) + "]", "natlist"
        raise TranslateError(f"{self.py}: expression `{ast.unparse(n)[:80]}` is not understood")

    def attr(self, n):
        if _is_self(n):
            if n.attr == "dim": return "dim", "nat"
            if n.attr == "n_pts": return "n", "nat"
            if n.attr == "_nid" and self.state: return "s.nid", "nat"
            if n.attr == "nodes" and self.nodes_expr: return self.nodes_expr, "fnodes"
            raise TranslateError(f"{self.py}: read of `self.{n.attr}`")
        base, ty = self.E(n.value)
        if ty == "leaf":
            if n.attr == "size":
                self.u.need("Leaf.size")
                return f"(leafSize {base})", "nat"
            if n.attr in LEAF_ATTR: return f"{base}.{LEAF_ATTR[n.attr][0]}", LEAF_ATTR[n.attr][1]
        if ty == "node" and n.attr in NODE_ATTR: return f"{base}.{NODE_ATTR[n.attr][0]}", NODE_ATTR[n.attr][1]
        if ty == "fnode" and n.attr in FNODE_ATTR: return f"{base}.{FNODE_ATTR[n.attr][0]}", FNODE_ATTR[n.attr][1]
        if ty == "box" and n.attr in BOX_ATTR: return f"{base}.{BOX_ATTR[n.attr][0]}", BOX_ATTR[n.attr][1]
        if ty in ("natlist", "ratlist", "boollist") and n.attr == "size": return f"{base}.length", "nat"
        raise TranslateError(f"{self.py}: attribute `.{n.attr}` of a value of type {ty}")

    def subscript(self, n):
        if _is_self(n.value, "points"):
            sl = n.slice
            if isinstance(sl, ast.Tuple) and len(sl.elts) == 2:
                a, aty = self.E(sl.elts[0]); b, bty = self.E(sl.elts[1])
                if aty == "natlist" and bty == "nat": return f"(takeAx P {a} {b})", "ratlist"
            else:
                a, aty = self.E(sl)
                if aty == "nat": return f"(P {a})", "pt"
            raise TranslateError(f"{self.py}: index expression `{ast.unparse(n)}`")
        if _is_self(n.value, "nodes"):
            i, ity = self.E(n.slice)
            if ity != "nat" or not self.nodes_expr: raise TranslateError(f"{self.py}: `{ast.unparse(n)}`")
            t = self.tmp()
            self.pre.append(("bind", t, f"{self.nodes_expr}[{i}]?"))
            return t, "fnode"
        base, ty = self.E(n.value)
        if isinstance(n.slice, ast.Slice):
            sl = n.slice
            if sl.lower is None and sl.step is None and sl.upper is not None and ty == "natlist":
                u, uty = self.E(sl.upper)
                if uty == "nat": return f"({base}.take {u})", "natlist"
            raise TranslateError(f"{self.py}: slice `{ast.unparse(n)}`")
        i, ity = self.E(n.slice)
        if ity != "nat": raise TranslateError(f"{self.py}: index of type {ity} in `{ast.unparse(n)}`")
        if ty == "natlist": return f"({base}.getD {i} 0)", "nat"
        if ty == "ratlist": return f"({base}.getD {i} 0)", "rat"
        raise TranslateError(f"{self.py}: subscript of a value of type {ty}")

    def binop(self, n):
        a, aty = self.E(n.left); b, bty = self.E(n.right)
        op = type(n.op)
        if aty == "nat" and bty == "nat" and op in (ast.Add, ast.Sub, ast.Mult, ast.FloorDiv, ast.Mod):
            return f"({a} {({ast.Add: '+', ast.Sub: '-', ast.Mult: '*', ast.FloorDiv: '/', ast.Mod: '%'})[op]} {b})", "nat"
        raise TranslateError(f"{self.py}: arithmetic `{ast.unparse(n)[:60]}` on {aty}, {bty}")

    def compare(self, n):
        if len(n.ops) != 1: raise TranslateError(f"{self.py}: chained comparison")
        op = type(n.ops[0])
        a, aty = self.E(n.left); b, bty = self.E(n.comparators[0])
        sym = {ast.Lt: "<", ast.LtE: "≤", ast.Eq: "=", ast.NotEq: "≠"}.get(op)
        if sym is None: raise TranslateError(f"{self.py}: comparison operator in `{ast.unparse(n)}`")
        if aty == "ratlist" and bty == "rat" and op is ast.LtE: return f"(leMask {a} {b})", "boollist"
        if aty == bty and aty in ("nat", "rat", "eq"): return f"decide ({a} {sym} {b})", "bool"
        if {aty, bty} == {"rat", "eq"}: return f"decide ({self.coerce(a, aty, 'eq')} {sym} {self.coerce(b, bty, 'eq')})", "bool"
        raise TranslateError(f"{self.py}: comparison `{ast.unparse(n)[:60]}` of {aty} with {bty}")

    def listcomp(self, n):
        if len(n.generators) != 1: raise TranslateError(f"{self.py}: nested comprehension")
        g = n.generators[0]
        if not _name(g.target): raise TranslateError(f"{self.py}: comprehension target")
        it, ity = self.E(g.iter)
        if ity != "natlist": raise TranslateError(f"{self.py}: comprehension over a value of type {ity}")
        saved = dict(self.env)
        self.env[g.target.id] = "nat"
        x = self.v(g.target.id)
        out = it
        for c in g.ifs:
            t, ty = self.E(c)
            if ty != "bool": raise TranslateError(f"{self.py}: comprehension filter is not boolean")
            out = f"({out}.filter (fun {x} => {t}))"
        e, ety = self.E(n.elt)
        self.env = saved
        if ety != "nat": raise TranslateError(f"{self.py}: comprehension element of type {ety}")
        if e != x: out = f"({out}.map (fun {x} => {e}))"
        return out, "natlist"

    def kw(self, n, allowed):
        for k in n.keywords:
            if k.arg not in allowed: raise TranslateError(f"{self.py}: keyword `{k.arg}` in `{ast.unparse(n)[:60]}`")
        return {k.arg: k.value for k in n.keywords}

    def record(self, n, cls):
        """`KDTree.Leaf(..)` / `KDTree.Node(..)` through the dataclass field order of the CURRENT source"""
        fields = self.u.fields[cls]
        vals = {}
        if len(n.args) > len(fields): raise TranslateError(f"{self.py}: too many arguments in `{ast.unparse(n)[:60]}`")
        for (f, _), a in zip(fields, n.args): vals[f] = a
        for k in n.keywords:
            if k.arg in vals or k.arg not in dict(fields): raise TranslateError(f"{self.py}: argument `{k.arg}` in `{ast.unparse(n)[:60]}`")
            vals[k.arg] = k.value
        for f, has_default in fields:
            if f not in vals and not has_default: raise TranslateError(f"{self.py}: field `{f}` not given in `{ast.unparse(n)[:60]}`")
        table = LEAF_ATTR if cls == "Leaf" else NODE_ATTR
        if set(dict(fields)) != set(table): raise TranslateError(f"KDTree.{cls}: fields {[f for f, _ in fields]} (expected {sorted(table)})")
        parts = []
        for f, (lf, lty) in table.items():
            if f in vals:
                t, ty = self.E(vals[f])
                parts.append(f"{lf} := {self.coerce(t, ty, lty)}")
            else:
                parts.append(f"{lf} := " + {"onat": "none", "box": "noBox", "nat": "0", "natlist": "[]", "rat": "0"}[lty])
        if cls == "Leaf":
            parts.append("path := ghost")
            return "({ " + ", ".join(parts) + " } : Pending)", "leaf"
        return "({ " + ", ".join(parts) + " } : SNode)", "node"

    def call(self, n):
        d = _call(n)
        f = n.func
        # --- methods of self
        if _is_self(f):
            m = f.attr
            if m == "_find_pivot" and self.find_pivot:
                if len(n.args) != 1 or n.keywords: raise TranslateError(f"{self.py}: call of _find_pivot")
                a, aty = self.E(n.args[0])
                if aty != "ratlist": raise TranslateError(f"{self.py}: _find_pivot on a value of type {aty}")
                return f"({self.find_pivot} {a})", "rat"
            if m == "is_leaf":
                self.u.need("is_leaf")
                if len(n.args) != 1 or n.keywords: raise TranslateError(f"{self.py}: call of is_leaf")
                a, aty = self.E(n.args[0])
                t = self.tmp()
                self.pre.append(("bind", t, f"isLeaf {self.nodes_expr} {a}"))
                return t, "bool"
            if m == "_split_points":
                self.u.need("_split_points")
                if len(n.args) != 2 or n.keywords: raise TranslateError(f"{self.py}: call of _split_points")
                a0 = n.args[0]
                if not (isinstance(a0, ast.Attribute) and _name(a0.value) and self.env.get(a0.value.id) == "leaf" and a0.attr == "points"):
                    raise TranslateError(f"{self.py}: _split_points must be called on `<leaf>.points` (the pivot parameter is keyed by the ghost path of that leaf)")
                a, aty = self.E(a0); b, bty = self.E(n.args[1])
                if bty != "nat": raise TranslateError(f"{self.py}: axis argument of _split_points")
                self.split_of = a0.value.id
                return f"(splitPoints P (piv {self.v(a0.value.id)}.path) {a} {b})", "triple"
            if m == "_new_leaf" and self.state:
                self.u.need("_new_leaf")
                if len(n.args) != 3 or n.keywords: raise TranslateError(f"{self.py}: call of _new_leaf")
                a, aty = self.E(n.args[0]); p, pty = self.E(n.args[1]); x, xty = self.E(n.args[2])
                if aty != "nat" or xty != "natlist": raise TranslateError(f"{self.py}: arguments of _new_leaf have types {aty}, {pty}, {xty}")
                gh = "1"
                if _name(n.args[2]) and n.args[2].id in self.ghost: gh = self.ghost[n.args[2].id]
                elif _call(n.args[2]) not in ("np.arange", "numpy.arange"):
                    raise TranslateError(f"{self.py}: the points of a new leaf must be `np.arange(..)` (root) or a half returned by _split_points (ghost path)")
                r, t = self.tmp(), self.tmp()
                self.pre.append(("let", [f"let {r} := newLeaf s {a} {self.coerce(p, pty, 'onat')} {x} {gh}", f"let s := {r}.1", f"let {t} := {r}.2"]))
                return t, "leaf"
            raise TranslateError(f"{self.py}: call of self.{m}")
        # --- constructors
        if d in ("KDTree.Leaf", "KDTree.Node"):
            return self.record(n, d.split(".")[1])
        if d == "AABB":
            if len(n.args) != 2 or n.keywords: raise TranslateError(f"{self.py}: AABB(..)")
            a, aty = self.E(n.args[0]); b, bty = self.E(n.args[1])
            if aty != "eqlist" or bty != "eqlist": raise TranslateError(f"{self.py}: AABB of {aty}, {bty}")
            return f"(Box.mk {a} {b})", "box"
        if d == "AABB.infinite":
            a, aty = self.E(n.args[0])
            if len(n.args) != 1 or n.keywords or aty != "nat": raise TranslateError(f"{self.py}: AABB.infinite(..)")
            return f"(Box.infinite {a})", "box"
        if d == "PriorityQueue" and not n.args and not n.keywords: return "([] : List Cand)", "pq"
        if d == "float" and len(n.args) == 1 and isinstance(n.args[0], ast.Constant) and str(n.args[0].value).lower().lstrip("+") in ("inf", "infinity"):
            return "pinf", "eq"
        # --- numpy / builtins
        if d in ("np.copy", "numpy.copy") and len(n.args) == 1 and not n.keywords: return self.E(n.args[0])
        if d in ("np.arange", "numpy.arange") and len(n.args) == 1 and not n.keywords:
            a, aty = self.E(n.args[0])
            if aty == "nat": return f"(List.range {a})", "natlist"
        if d in ("np.argsort", "numpy.argsort") and len(n.args) == 1:
            kw = self.kw(n, {"kind"})
            if not ("kind" in kw and isinstance(kw["kind"], ast.Constant) and kw["kind"].value in ("stable", "mergesort")):
                raise TranslateError(f"{self.py}: np.argsort without kind='stable' (the order of equal coordinates is then unspecified)")
            a, aty = self.E(n.args[0])
            if aty == "ratlist": return f"(argsortStable {a})", "natlist"
        if d in ("np.zeros", "numpy.zeros") and len(n.args) == 1:
            kw = self.kw(n, {"dtype"})
            if "dtype" in kw and ast.unparse(kw["dtype"]) in ("bool", "np.bool_", "numpy.bool_"):
                a, aty = self.E(n.args[0])
                if aty == "nat": return f"(zerosBool {a})", "boollist"
        if d in ("np.extract", "numpy.extract") and len(n.args) == 2 and not n.keywords:
            a, aty = self.E(n.args[0]); b, bty = self.E(n.args[1])
            if aty == "boollist" and bty == "natlist": return f"(extract {a} {b})", "natlist"
        if d == "len" and len(n.args) == 1:
            a, aty = self.E(n.args[0])
            if aty in ("leafq", "natq", "natlist", "ratlist", "pq"): return f"{a}.length", "nat"
        if d == "distance" and len(n.args) == 2 and not n.keywords:
            a, aty = self.E(n.args[0]); b, bty = self.E(n.args[1])
            if aty == "pt" and bty == "pt": return f"(sqDist {a} {b})", "rat"
        if d == "sorted" and len(n.args) == 1 and not n.keywords and isinstance(n.args[0], ast.List) and len(n.args[0].elts) == 2:
            a, aty = self.E(n.args[0].elts[0]); b, bty = self.E(n.args[0].elts[1])
            if aty == "pair" and bty == "pair": return f"(sorted2 {a} {b})", "pairlist"
        # --- methods of values
        if isinstance(f, ast.Attribute):
            m = f.attr
            if m == "distance" and len(n.args) == 1 and not n.keywords:
                b, bty = self.E(f.value); a, aty = self.E(n.args[0])
                if bty == "box" and aty == "pt": return f"({b}.dist2 {a})", "eq"
            if m in ("all", "any") and not n.args and not n.keywords:
                b, bty = self.E(f.value)
                if bty == "boollist": return f"({'maskAll' if m == 'all' else 'maskAny'} {b})", "bool"
            if m == "empty" and not n.args:
                b, bty = self.E(f.value)
                if bty == "pq": return f"(pqEmpty {b})", "bool"
        raise TranslateError(f"{self.py}: call `{ast.unparse(n)[:80]}` is not understood")

    # -- conditions of `while` / `if` ---------------------------------------------------------------------------------
    def cond(self, n):
        # truth value of a container / `len(q) != 0` / `0 < len(q)`
        if isinstance(n, ast.Name) and self.env.get(n.id) in ("leafq", "natq"):
            return f"(!{self.v(n.id)}.isEmpty)"
        if isinstance(n, ast.Compare) and len(n.ops) == 1:
            a, b, op = n.left, n.comparators[0], type(n.ops[0])
            def is_len(x): return _call(x, "len") and len(x.args) == 1 and _name(x.args[0]) and self.env.get(x.args[0].id) in ("leafq", "natq")
            def is_zero(x): return isinstance(x, ast.Constant) and x.value == 0 and not isinstance(x.value, bool)
            if (is_zero(a) and is_len(b) and op in (ast.Lt, ast.NotEq)) or (is_len(a) and is_zero(b) and op is ast.NotEq):
                q = (b if is_len(b) else a).args[0].id
                return f"(!{self.v(q)}.isEmpty)"
        t, ty = self.E(n)
        if ty != "bool": raise TranslateError(f"{self.py}: condition `{ast.unparse(n)[:60]}` is not boolean")
        return t

    # -- statements -------------------------------------------------------------------------------------------------
    def assigned(self, stmts):
        """names (and 's') a statement list may assign"""
        out = []

        def add(x):
            if x not in out: out.append(x)
        for st in stmts:
            for n in ast.walk(st):
                tg = []
                if isinstance(n, ast.Assign): tg = n.targets
                elif isinstance(n, ast.AugAssign): tg = [n.target]
                elif isinstance(n, (ast.For, ast.comprehension)): tg = []
                for t in tg:
                    for m in (t.elts if isinstance(t, ast.Tuple) else [t]):
                        base = m
                        while isinstance(base, (ast.Attribute, ast.Subscript)): base = base.value
                        if _name(base):
                            add("s" if base.id == "self" else base.id)
                if isinstance(n, ast.Call) and isinstance(n.func, ast.Attribute):
                    b = n.func.value
                    if n.func.attr in ("append", "pop", "popleft", "push") and _name(b): add(b.id)
                    if n.func.attr == "append" and _is_self(b): add("s")
                    if _is_self(n.func) and n.func.attr == "_new_leaf": add("s")
        return out

    def wrap_pre(self, pre, body):
        """body text preceded by the pre-bindings (lets, Option binds)"""
        lines = []
        for p in pre:
            if p[0] == "let":
                lines += p[1]
            else:
                lines += [f"match {p[2]} with", "| none => none", f"| some {p[1]} =>"]
        return "\n".join(lines + [body])

    def take_pre(self):
        p, self.pre = self.pre, []
        return p

    def canon(self, names):
        """canonical order of a variable tuple: by TYPE (so that renaming locals or reordering independent statements does
        not change the signature of a generated loop), ties in order of appearance"""
        return sorted(names, key=lambda x: "state" if x == "s" else (self.env.get(x) or "zz"))

    def tuple_of(self, names):
        ts = [("s" if x == "s" else self.v(x)) for x in names]
        return ts[0] if len(ts) == 1 else "(" + ", ".join(ts) + ")"

    def tuple_ty(self, names):
        ts = [("BSt" if x == "s" else TY[self.env[x]]) for x in names]
        return ts[0] if len(ts) == 1 else "(" + " × ".join(ts) + ")"

    def untuple(self, names, src):
        """let-lines that rebind `names` from the tuple term `src`"""
        if len(names) == 1:
            return [f"let {self.tuple_of(names)} := {src}"]
        out = []
        for i, x in enumerate(names):
            proj = ".2" * i + (".1" if i < len(names) - 1 else "")
            out.append(f"let {'s' if x == 's' else self.v(x)} := {src}{proj}")
        return out

    def block(self, stmts, k, kexit):
        """statement list -> Lean term text; `k()` = what follows the list, `kexit()` = what `continue` / falling off the
        enclosing loop body produces"""
        if not stmts:
            return k()
        st, rest = stmts[0], stmts[1:]

        def after():
            return self.block(rest, k, kexit)
        if isinstance(st, ast.Continue):
            return kexit()
        if isinstance(st, ast.Return):
            if rest: raise TranslateError(f"{self.py}: statements after return")
            return self.ret_stmt(st)
        if isinstance(st, ast.If):
            return self.if_stmt(st, rest, k, kexit)
        if isinstance(st, ast.While):
            return self.while_stmt(st, after)
        if isinstance(st, ast.For):
            return self.for_stmt(st, after)
        lines = self.simple(st)
        pre = self.take_pre()
        return self.wrap_pre(pre, "\n".join(lines + [after()]))

    def ret_stmt(self, st):
        raise TranslateError(f"{self.py}: return statement not expected here")

    def ends_in_jump(self, body):
        return bool(body) and isinstance(body[-1], (ast.Continue, ast.Return))

    def if_stmt(self, st, rest, k, kexit):
        c = self.cond(st.test)
        pre = self.take_pre()
        body, orelse = _strip(st.body), _strip(st.orelse)
        saved = dict(self.env)
        if self.ends_in_jump(body) and not orelse:
            a = self.block(body, k, kexit)
            self.env = dict(saved)
            b = self.block(rest, k, kexit)
            return self.wrap_pre(pre, f"if {c} then (\n{ind(a)}\n) else (\n{ind(b)}\n)")
        if not rest:
            a = self.block(body, k, kexit)
            self.env = dict(saved)
            b = self.block(orelse, k, kexit)
            self.env = dict(saved)
            return self.wrap_pre(pre, f"if {c} then (\n{ind(a)}\n) else (\n{ind(b)}\n)")
        # in the middle of a block: the branches return the variables they assign (those that exist before the `if`)
        w = self.canon([x for x in self.assigned(body + orelse) if x == "s" or x in saved])
        if not w: raise TranslateError(f"{self.py}: `if {ast.unparse(st.test)[:40]}` assigns nothing that is visible after it")
        if any(isinstance(x, (ast.Continue, ast.Return, ast.Break)) for b in (body, orelse) for y in b for x in ast.walk(y)):
            raise TranslateError(f"{self.py}: jump inside a nested `if`")
        a = self.block(body, lambda: self.tuple_of(w), kexit)
        self.env = dict(saved)
        b = self.block(orelse, lambda: self.tuple_of(w), kexit)
        self.env = dict(saved)
        r = self.tmp()
        lines = [f"let {r} : {self.tuple_ty(w)} := if {c} then (\n{ind(a)}\n) else (\n{ind(b)}\n)"] + self.untuple(w, r)
        return self.wrap_pre(pre, "\n".join(lines + [self.block(rest, k, kexit)]))

    partial_depth = 0

    def free_before(self, stmts, test=None):
        """names of the environment read or written by the statements (candidates for parameters of a loop definition)"""
        seen = []
        nodes = list(stmts) + ([test] if test is not None else [])
        for st in nodes:
            for n in ast.walk(st):
                if isinstance(n, ast.Name) and n.id in self.env and n.id not in seen: seen.append(n.id)
        return seen

    def while_stmt(self, st, after):
        if st.orelse: raise TranslateError(f"{self.py}: while/else")
        body = _strip(st.body)
        self.nloop += 1
        base = f"{self.lean}Loop{self.nloop}"
        carried = self.canon([x for x in self.assigned(body) if x == "s" or x in self.env])
        reads = self.canon([x for x in self.free_before(body, st.test) if x not in carried])
        uses_state = "s" in carried
        fixed = self.fixed + "".join(f" ({self.v(x)} : {TY[self.env[x]]})" for x in reads)
        fixed_args = self.fixed_args + "".join(f" {self.v(x)}" for x in reads)
        cty = self.tuple_ty(carried)
        saved = dict(self.env)
        unt = self.untuple(carried, "c")
        ctext = self.cond(st.test)
        if self.take_pre(): raise TranslateError(f"{self.py}: partial operation in a loop condition")
        fuel = self.loop_fuel(st)
        total = fuel is not None
        self.partial_depth += 1
        btext = self.block(body, lambda: (self.tuple_of(carried) if total else f"some {self.tuple_of(carried)}"),
                           lambda: (self.tuple_of(carried) if total else f"some {self.tuple_of(carried)}"))
        self.partial_depth -= 1
        self.env = saved
        doc = ast.unparse(st.test).replace("-/", "- /")
        self.aux.append(f"/-- `while {doc}` of `{self.py}`: the condition, on the loop-carried variables -/\n"
                        f"def {base}Cond{fixed} (c : {cty}) : Bool :=\n" + ind("\n".join(unt + [ctext])) + "\n")
        if total:
            self.aux.append(f"/-- its body -/\ndef {base}Body{fixed} (c : {cty}) : {cty} :=\n" + ind("\n".join(unt + [btext])) + "\n")
            self.aux.append(f"/-- the loop, on a fuel argument (the caller passes a bound on the number of iterations) -/\n"
                            f"def {base}{fixed} : Nat → {cty} → {cty}\n"
                            f"  | 0, c => c\n"
                            f"  | fuel + 1, c => if {base}Cond{fixed_args} c then {base}{fixed_args} fuel ({base}Body{fixed_args} c) else c\n")
            lines = self.untuple(carried, f"({base}{fixed_args} {fuel} {self.tuple_of(carried)})")
            if len(carried) > 1:
                r = self.tmp()
                lines = [f"let {r} := {base}{fixed_args} {fuel} {self.tuple_of(carried)}"] + self.untuple(carried, r)
            return "\n".join(lines + [after()])
        self.aux.append(f"/-- its body (`none` = the Python statement raises) -/\ndef {base}Body{fixed} (c : {cty}) : Option {cty} :=\n"
                        + ind("\n".join(unt + [btext])) + "\n")
        self.aux.append(f"/-- the loop, on a fuel argument (`none` = the body raised, or the fuel ran out before the condition failed) -/\n"
                        f"def {base}{fixed} : Nat → {cty} → Option {cty}\n"
                        f"  | 0, c => if {base}Cond{fixed_args} c then none else some c\n"
                        f"  | fuel + 1, c =>\n"
                        f"    if {base}Cond{fixed_args} c then\n"
                        f"      (match {base}Body{fixed_args} c with\n"
                        f"       | none => none\n"
                        f"       | some c' => {base}{fixed_args} fuel c')\n"
                        f"    else some c\n")
        r = self.tmp()
        lines = [f"match {base}{fixed_args} fuel {self.tuple_of(carried)} with", "| none => none", f"| some {r} =>"] + self.untuple(carried, r)
        return "\n".join(lines + [after()])

    def loop_fuel(self, st):
        """a nested counting loop `while k < n: ...; n -= 1` runs at most n times: fuel = n (total loop)"""
        t = st.test
        if isinstance(t, ast.Compare) and len(t.ops) == 1 and isinstance(t.ops[0], ast.Lt) and _name(t.comparators[0]) and _name(t.left):
            n = t.comparators[0].id
            decs = [x for x in ast.walk(st) if isinstance(x, ast.AugAssign) and _name(x.target, n)]
            if len(decs) == 1 and isinstance(decs[0].op, ast.Sub) and isinstance(decs[0].value, ast.Constant) and decs[0].value.value == 1 \
                    and decs[0] in st.body and self.env.get(n) == "nat" and self.env.get(t.left.id) == "nat":
                return self.v(n)
        return None

    def for_stmt(self, st, after):
        if st.orelse: raise TranslateError(f"{self.py}: for/else")
        body = _strip(st.body)
        it, ity = self.E(st.iter)
        if self.pre: raise TranslateError(f"{self.py}: partial operation in the iterable of a `for`")
        saved = dict(self.env)
        if ity == "natlist" and _name(st.target):
            self.env[st.target.id] = "nat"
            binder, ety, unpack = self.v(st.target.id), "Nat", []
        elif ity == "pairlist" and isinstance(st.target, ast.Tuple) and len(st.target.elts) == 2 and all(_name(x) for x in st.target.elts):
            a, b = st.target.elts
            self.env[a.id] = "eq"; self.env[b.id] = "nat"
            binder, ety, unpack = "e", "EQ × Nat", [f"let {self.v(a.id)} := e.1", f"let {self.v(b.id)} := e.2"]
        else:
            raise TranslateError(f"{self.py}: `for {ast.unparse(st.target)} in {ast.unparse(st.iter)[:40]}`")
        carried = self.canon([x for x in self.assigned(body) if x == "s" or x in saved])
        if not carried: raise TranslateError(f"{self.py}: a `for` body that assigns nothing")
        cty = self.tuple_ty(carried)
        self.partial_depth += 1
        btext = self.block(body, lambda: self.tuple_of(carried), lambda: self.tuple_of(carried))
        self.partial_depth -= 1
        if "| none => none" in btext: raise TranslateError(f"{self.py}: partial operation inside a `for` body")
        self.env = saved
        fn = f"(fun (c : {cty}) ({binder} : {ety}) =>\n" + ind("\n".join(self.untuple(carried, "c") + unpack + [btext]), 4) + ")"
        r = self.tmp()
        lines = [f"let {r} := {it}.foldl {fn} {self.tuple_of(carried)}"] + self.untuple(carried, r)
        return "\n".join(lines + [after()])

    def simple(self, st):
        """assignment / expression statement -> list of `let` lines (pre-bindings are left in self.pre)"""
        if isinstance(st, ast.Assign) and len(st.targets) == 1:
            t, val = st.targets[0], st.value
            # deque / queue constructors
            if _name(t) and _call(val) in ("deque", "collections.deque") and not val.args:
                self.env[t.id] = None       # element type fixed by the first append
                return []
            if _name(t) and isinstance(val, ast.List) and not val.elts:
                self.env[t.id] = "natlist"
                return [f"let {self.v(t.id)} : List Nat := []"]
            # x = q.popleft() / q.pop()
            if _name(t) and isinstance(val, ast.Call) and isinstance(val.func, ast.Attribute) and _name(val.func.value) \
                    and val.func.value.id in self.deques and val.func.attr in ("pop", "popleft") and not val.args:
                q = val.func.value.id
                ety = {"leafq": "leaf", "natq": "nat"}[self.env[q]]
                self.env[t.id] = ety
                self.pre.append(("bind", f"({self.v(t.id)}, {self.v(q)})", f"(match {self.v(q)} with | [] => none | x :: xs => some (x, xs))"))
                return []
            if _name(t):
                x, ty = self.E(val)
                self.env[t.id] = ty
                return [f"let {self.v(t.id)} := {x}"]
            if isinstance(t, ast.Tuple) and all(_name(x) for x in t.elts) and not isinstance(val, ast.Tuple):
                x, ty = self.E(val)
                if ty != "triple" or len(t.elts) != 3: raise TranslateError(f"{self.py}: tuple assignment from a value of type {ty}")
                r = self.tmp()
                names = [e.id for e in t.elts]
                for nme, tt in zip(names, ("rat", "natlist", "natlist")): self.env[nme] = tt
                leaf = getattr(self, "split_of", None)
                if leaf:
                    self.ghost[names[1]] = f"(2 * {self.v(leaf)}.path)"
                    self.ghost[names[2]] = f"(2 * {self.v(leaf)}.path + 1)"
                return [f"let {r} := {x}", f"let {self.v(names[0])} := {r}.1", f"let {self.v(names[1])} := {r}.2.1", f"let {self.v(names[2])} := {r}.2.2"]
            if isinstance(t, ast.Tuple) and isinstance(val, ast.Tuple) and len(t.elts) == len(val.elts):
                # parallel assignment: all right-hand sides first
                tmps, lines = [], []
                for e in val.elts:
                    x, ty = self.E(e)
                    r = self.tmp(); tmps.append((r, ty)); lines.append(f"let {r} := {x}")
                for tg, (r, ty) in zip(t.elts, tmps):
                    lines += self.store(tg, r, ty)
                return lines
            if isinstance(t, (ast.Attribute, ast.Subscript)):
                x, ty = self.E(val)
                return self.store(t, x, ty)
        if isinstance(st, ast.AugAssign):
            t = st.target
            if _is_self(t, "_nid") and self.state and isinstance(st.op, ast.Add):
                x, ty = self.E(st.value)
                if ty != "nat": raise TranslateError(f"{self.py}: self._nid += <{ty}>")
                return [f"let s := {{ s with nid := s.nid + {x} }}"]
            if _name(t) and self.env.get(t.id) == "nat" and isinstance(st.op, (ast.Add, ast.Sub)):
                x, ty = self.E(st.value)
                if ty != "nat": raise TranslateError(f"{self.py}: {t.id} += <{ty}>")
                return [f"let {self.v(t.id)} := {self.v(t.id)} {'+' if isinstance(st.op, ast.Add) else '-'} {x}"]
            if _name(t) and self.env.get(t.id) == "natlist" and isinstance(st.op, ast.Add):
                x, ty = self.E(st.value)
                if ty != "natlist": raise TranslateError(f"{self.py}: {t.id} += <{ty}>")
                return [f"let {self.v(t.id)} := {self.v(t.id)} ++ {x}"]
        if isinstance(st, ast.Expr) and isinstance(st.value, ast.Call) and isinstance(st.value.func, ast.Attribute):
            c = st.value
            m, b = c.func.attr, c.func.value
            if m == "append" and _is_self(b, "nodes") and self.state and len(c.args) == 1:
                x, ty = self.E(c.args[0])
                conv = {"leaf": ".toLeaf", "node": ".toF"}.get(ty)
                if conv is None: raise TranslateError(f"{self.py}: self.nodes.append(<{ty}>)")
                return [f"let s := {{ s with nodes := s.nodes ++ [{x}{conv}] }}"]
            if m == "append" and _name(b) and b.id in self.deques and len(c.args) == 1:
                x, ty = self.E(c.args[0])
                qty = {"leaf": "leafq", "nat": "natq"}.get(ty)
                if qty is None or self.env.get(b.id) not in (None, qty): raise TranslateError(f"{self.py}: {b.id}.append(<{ty}>)")
                first = self.env.get(b.id) is None
                self.env[b.id] = qty
                q = self.v(b.id)
                cur = f"([] : {TY[qty]})" if first else q
                return [f"let {q} := {cur} ++ [{x}]" if self.deques[b.id] == "fifo" else f"let {q} := {x} :: {cur}"]
            if m == "push" and _name(b) and self.env.get(b.id) == "pq" and len(c.args) == 2 and not c.keywords:
                i, ity = self.E(c.args[0])
                w = c.args[1]
                if not (isinstance(w, ast.UnaryOp) and isinstance(w.op, ast.USub)):
                    raise TranslateError(f"{self.py}: the candidate queue must be keyed by `-distance(..)` (max-heap of distances), found `{ast.unparse(w)[:40]}`")
                d, dty = self.E(w.operand)
                if ity != "nat" or dty != "rat": raise TranslateError(f"{self.py}: push of ({ity}, -{dty})")
                return [f"let {self.v(b.id)} := pqPush {self.v(b.id)} {d} {i}"]
            if m == "pop" and _name(b) and self.env.get(b.id) == "pq" and not c.args:
                return [f"let {self.v(b.id)} := pqPop {self.v(b.id)}"]
        raise TranslateError(f"{self.py}: statement `{ast.unparse(st)[:80]}` is not understood")

    def store(self, t, x, ty):
        """`<local>.field = x` / `<local>[i] = x`"""
        if isinstance(t, ast.Attribute) and _name(t.value) and self.env.get(t.value.id) in ("leaf", "node"):
            table = LEAF_ATTR if self.env[t.value.id] == "leaf" else NODE_ATTR
            if t.attr not in table: raise TranslateError(f"{self.py}: store to `.{t.attr}`")
            lf, lty = table[t.attr]
            o = self.v(t.value.id)
            return [f"let {o} := {{ {o} with {lf} := {self.coerce(x, ty, lty)} }}"]
        if isinstance(t, ast.Subscript) and _name(t.value) and self.env.get(t.value.id) in ("eqlist", "boollist"):
            lt = self.env[t.value.id]
            o = self.v(t.value.id)
            if lt == "eqlist":
                i, ity = self.E(t.slice)
                if ity != "nat": raise TranslateError(f"{self.py}: index of type {ity}")
                return [f"let {o} := {o}.set {i} {self.coerce(x, ty, 'eq')}"]
            i, ity = self.E(t.slice)
            if ity == "natlist" and x == "true":
                return [f"let {o} := maskSet {o} {i}"]
        raise TranslateError(f"{self.py}: store `{ast.unparse(t)[:60]} = ..` is not understood")


# ------------------------------------------------------------------------------------------------------------------
# the unit: class KDTree of the current source
# ------------------------------------------------------------------------------------------------------------------
class Unit:
    def __init__(self, tree):
        self.tree = tree
        self.cls = T.find_def(tree, "KDTree")
        self.methods = {f.name: f for f in self.cls.body if isinstance(f, ast.FunctionDef)}
        self.fields = {}
        for nm in ("Leaf", "Node"):
            c = [x for x in self.cls.body if isinstance(x, ast.ClassDef) and x.name == nm]
            if not c: raise TranslateError(f"class KDTree.{nm} not found")
            self.fields[nm] = dataclass_fields(c[0])
            if nm == "Leaf":
                for f in c[0].body:
                    if isinstance(f, ast.FunctionDef): self.methods["Leaf." + f.name] = f
        self.needed = []
        self.defs = {}

    def need(self, m):
        if m not in self.needed: self.needed.append(m)


def _enum_members(cls_node):
    """[(NAME, int value)] of an Enum class body"""
    out = []
    for st in cls_node.body:
        if isinstance(st, ast.Assign) and len(st.targets) == 1 and _name(st.targets[0]) and isinstance(st.value, ast.Constant) and isinstance(st.value.value, int):
            out.append((st.targets[0].id, st.value.value))
    return out


STRATS = {"BALANCED": "balanced", "FAST": "fast", "RANDOM": "random"}


def compile_strategy(u):
    """`KDTree.BuildStrategy` (Enum members) and `from_string` (a chain of `if txt.lower() == "<s>": return cls.<M>`)"""
    bs = [x for x in u.cls.body if isinstance(x, ast.ClassDef) and x.name == "BuildStrategy"]
    if not bs: raise TranslateError("class KDTree.BuildStrategy not found")
    members = _enum_members(bs[0])
    if sorted(m for m, _ in members) != sorted(STRATS) or len({v for _, v in members}) != len(members):
        raise TranslateError(f"BuildStrategy: members {members} (expected distinct values for {sorted(STRATS)})")
    fs = [f for f in bs[0].body if isinstance(f, ast.FunctionDef) and f.name == "from_string"]
    if not fs: raise TranslateError("BuildStrategy.from_string not found")
    fn = fs[0]
    names = [a.arg for a in fn.args.args]
    if len(names) != 2: raise TranslateError(f"from_string: parameters {names}")
    rows = []
    stmts = list(_body(fn))
    while stmts:
        st = stmts.pop(0)
        if not isinstance(st, ast.If): raise TranslateError(f"from_string: statement `{ast.unparse(st)[:60]}`")
        t = st.test
        if not (isinstance(t, ast.Compare) and len(t.ops) == 1 and isinstance(t.ops[0], ast.Eq)):
            raise TranslateError(f"from_string: test `{ast.unparse(t)[:60]}`")
        a, b = t.left, t.comparators[0]
        if isinstance(a, ast.Constant): a, b = b, a
        if not (ast.unparse(a) == f"{names[1]}.lower()" and isinstance(b, ast.Constant) and isinstance(b.value, str)):
            raise TranslateError(f"from_string: test `{ast.unparse(t)[:60]}`")
        body = _strip(st.body)
        if not (len(body) == 1 and isinstance(body[0], ast.Return) and isinstance(body[0].value, ast.Attribute)
                and ast.unparse(body[0].value.value) in (names[0], "KDTree.BuildStrategy", "BuildStrategy") and body[0].value.attr in STRATS):
            raise TranslateError(f"from_string: branch `{ast.unparse(st)[:80]}`")
        rows.append((b.value, STRATS[body[0].value.attr]))
        stmts = _strip(st.orelse) + stmts
    txt = ("/-- `KDTree.BuildStrategy.from_string` (the argument is lower-cased first; no match: `None`) -/\n"
           "def strategyOfString (v_txt : String) : Option Strategy :=\n")
    for sname, m in rows:
        txt += f'  if v_txt = "{sname}" then some .{m} else\n'
    txt += "  none\n"
    return txt, rows


def compile_find_pivot(u):
    """`_find_pivot`: an if / elif chain on `self.build_strategy == KDTree.BuildStrategy.<M>`; `np.random.choice(a, n, replace=False)` is
    the parameter `sample a n` (ANY list), `np.random.choice(a, 1)[0]` the parameter `pick a` (ANY value), `np.median` the exact median"""
    fn = u.methods.get("_find_pivot")
    if fn is None: raise TranslateError("KDTree._find_pivot not found")
    names = [a.arg for a in fn.args.args]
    if len(names) != 2: raise TranslateError(f"_find_pivot: parameters {names}")
    env = {names[1]: "ratlist"}

    def E(n):
        if _name(n) and n.id in env: return "v_" + n.id, env[n.id]
        if isinstance(n, ast.Constant) and isinstance(n.value, int) and not isinstance(n.value, bool): return str(n.value), "nat"
        if isinstance(n, ast.Attribute) and n.attr == "size":
            t, ty = E(n.value)
            if ty == "ratlist": return f"{t}.length", "nat"
        d = _call(n)
        if d == "len" and len(n.args) == 1:
            t, ty = E(n.args[0])
            if ty == "ratlist": return f"{t}.length", "nat"
        if d == "min" and len(n.args) == 2:
            a, aty = E(n.args[0]); b, bty = E(n.args[1])
            if aty == "nat" and bty == "nat": return f"(min {a} {b})", "nat"
        if d in ("np.median", "numpy.median") and len(n.args) == 1 and not n.keywords:
            a, aty = E(n.args[0])
            if aty == "ratlist": return f"(median {a})", "rat"
        if d in ("np.random.choice", "numpy.random.choice") and len(n.args) == 2:
            kw = {k.arg: ast.unparse(k.value) for k in n.keywords}
            a, aty = E(n.args[0]); b, bty = E(n.args[1])
            if aty == "ratlist" and bty == "nat" and kw == {"replace": "False"}: return f"(sample {a} {b})", "ratlist"
        if isinstance(n, ast.Subscript) and isinstance(n.slice, ast.Constant) and n.slice.value == 0 and _call(n.value) in ("np.random.choice", "numpy.random.choice"):
            c = n.value
            if len(c.args) == 2 and isinstance(c.args[1], ast.Constant) and c.args[1].value == 1 and not c.keywords:
                a, aty = E(c.args[0])
                if aty == "ratlist": return f"(pick {a})", "rat"
        raise TranslateError(f"_find_pivot: expression `{ast.unparse(n)[:70]}` is not understood")

    def block(stmts):
        if not stmts: raise TranslateError("_find_pivot: a branch falls off the end")
        st, rest = stmts[0], stmts[1:]
        if isinstance(st, ast.Return):
            t, ty = E(st.value)
            if ty != "rat": raise TranslateError(f"_find_pivot: returns a value of type {ty}")
            return f"some {t}"
        if isinstance(st, ast.Raise): return "none"
        if isinstance(st, ast.Assign) and len(st.targets) == 1 and _name(st.targets[0]):
            t, ty = E(st.value)
            env[st.targets[0].id] = ty
            return f"let v_{st.targets[0].id} := {t}\n" + block(rest)
        if isinstance(st, ast.If):
            t = st.test
            if not (isinstance(t, ast.Compare) and len(t.ops) == 1 and isinstance(t.ops[0], ast.Eq)): raise TranslateError(f"_find_pivot: test `{ast.unparse(t)[:60]}`")
            a, b = t.left, t.comparators[0]
            if ast.unparse(b) == "self.build_strategy": a, b = b, a
            if not (ast.unparse(a) == "self.build_strategy" and isinstance(b, ast.Attribute) and b.attr in STRATS
                    and ast.unparse(b.value) in ("KDTree.BuildStrategy", "self.BuildStrategy", "BuildStrategy")):
                raise TranslateError(f"_find_pivot: test `{ast.unparse(t)[:60]}`")
            saved = dict(env)
            yes = block(_strip(st.body)); env.clear(); env.update(saved)
            no = block(_strip(st.orelse) + rest) if (st.orelse or rest) else "none"
            env.clear(); env.update(saved)
            return f"if strat = .{STRATS[b.attr]} then (\n{ind(yes)}\n) else (\n{ind(no)}\n)"
        raise TranslateError(f"_find_pivot: statement `{ast.unparse(st)[:70]}` is not understood")
    txt = block(_body(fn))
    return ("/-- `KDTree._find_pivot`: `sample` = `np.random.choice(·, n, replace=False)`, `pick` = `np.random.choice(·, 1)[0]` (ANY functions:\n"
            "every random draw); `none` = the final `raise` -/\n"
            f"def findPivot (strat : Strategy) (sample : List Rat → Nat → List Rat) (pick : List Rat → Rat) (v_{names[1]} : List Rat) : Option Rat :=\n"
            + ind(txt) + "\n")


def compile_init_strategy(u):
    """the strategy strings `__init__` accepts: `check_argument("strategy", strategy.lower(), str, [..])` and the call of from_string"""
    fn = u.methods["__init__"]
    lst = None
    uses = False
    for n in ast.walk(fn):
        if _call(n, "check_argument") and len(n.args) == 4 and isinstance(n.args[0], ast.Constant) and n.args[0].value == "strategy" \
                and isinstance(n.args[3], ast.List) and all(isinstance(e, ast.Constant) and isinstance(e.value, str) for e in n.args[3].elts) \
                and ast.unparse(n.args[1]).endswith(".lower()"):
            lst = [e.value for e in n.args[3].elts]
        if isinstance(n, ast.Assign) and _is_self(n.targets[0], "build_strategy") and _call(n.value, "KDTree.BuildStrategy.from_string"):
            uses = True
    if lst is None or not uses:
        raise TranslateError("__init__: `check_argument('strategy', strategy.lower(), str, [..])` / `self.build_strategy = KDTree.BuildStrategy.from_string(..)` not found")
    return ("/-- the strategy names `__init__` accepts (`check_argument`, after `.lower()`) -/\n"
            "def acceptedStrategies : List String := [" + ", ".join(f'"{x}"' for x in lst) + "]\n"), lst


FIXED_P = " (P : Nat → Pt)"


def compile_leaf_size(u):
    fn = u.methods.get("Leaf.size")
    if fn is None: raise TranslateError("KDTree.Leaf.size not found")
    body = _body(fn)
    if len(body) != 1 or not isinstance(body[0], ast.Return) or ast.unparse(body[0].value) not in ("self.points.size", "len(self.points)", "self.points.shape[0]"):
        raise TranslateError(f"Leaf.size: expected `return self.points.size`, found `{ast.unparse(fn)[-60:]}`")
    return "/-- `KDTree.Leaf.size` -/\ndef leafSize (v_self : Pending) : Nat :=\n  v_self.idx.length\n"


def compile_new_leaf(u):
    f = Fn(u, "_new_leaf", "newLeaf", ["nat", "onat", "natlist"], "", None, state=True)
    f.fixed_args = ""

    def ret(st):
        x, ty = f.E(st.value)
        if ty != "leaf": raise TranslateError("_new_leaf: returns a value of type " + ty)
        return f"(s, {x})"
    f.ret_stmt = ret
    txt = f.block(_body(f.fn), lambda: (_ for _ in ()).throw(TranslateError("_new_leaf: no return")), None)
    ps = " ".join(f"({f.v(p)} : {TY[t]})" for p, t in zip(f.pnames, f.ptypes))
    return ("/-- `KDTree._new_leaf` (`ghost`: heap-path id of the cell, keys the pivot parameter only) -/\n"
            f"def newLeaf (s : BSt) {ps} (ghost : Nat) : BSt × Pending :=\n" + ind(txt) + "\n")


def compile_split_points(u):
    f = Fn(u, "_split_points", "splitPoints", ["natlist", "nat"], FIXED_P, None, find_pivot="fp")
    f.fixed_args = " P"

    def ret(st):
        v = st.value
        if not (isinstance(v, ast.Tuple) and len(v.elts) == 3): raise TranslateError("_split_points: expected `return pivot, less, more`")
        parts = [f.E(e) for e in v.elts]
        if [ty for _, ty in parts] != ["rat", "natlist", "natlist"]: raise TranslateError(f"_split_points: returns {[ty for _, ty in parts]}")
        return "(" + ", ".join(t for t, _ in parts) + ")"
    f.ret_stmt = ret
    txt = f.block(_body(f.fn), lambda: (_ for _ in ()).throw(TranslateError("_split_points: no return")), None)
    ps = " ".join(f"({f.v(p)} : {TY[t]})" for p, t in zip(f.pnames, f.ptypes))
    return ("/-- `KDTree._split_points`; `fp` = `self._find_pivot` (any function: every strategy and random draw) -/\n"
            f"def splitPoints (P : Nat → Pt) (fp : List Rat → Rat) {ps} : Rat × List Nat × List Nat :=\n" + ind(txt) + "\n")


def compile_is_leaf(u):
    f = Fn(u, "is_leaf", "isLeaf", ["nat"], "", None, nodes_expr="nodes")
    f.fixed_args = ""
    body = _body(f.fn)
    if len(body) != 1 or not isinstance(body[0], ast.Return): raise TranslateError("is_leaf: expected a single return")
    v = body[0].value
    if not (_call(v, "isinstance") and len(v.args) == 2 and ast.unparse(v.args[1]) == "KDTree.Leaf"):
        raise TranslateError(f"is_leaf: expected `isinstance(self.nodes[i], KDTree.Leaf)`, found `{ast.unparse(v)[:60]}`")
    x, ty = f.E(v.args[0])
    if ty != "fnode": raise TranslateError("is_leaf: isinstance of a value of type " + ty)
    txt = f.wrap_pre(f.take_pre(), f"some {x}.isLeaf")
    return ("/-- `KDTree.is_leaf` (`none` = IndexError) -/\n"
            f"def isLeaf (nodes : List FNode) ({f.v(f.pnames[0])} : Nat) : Option Bool :=\n" + ind(txt) + "\n")


def compile_init(u):
    """`__init__`: the prologue is matched statement by statement, then the construction loop is compiled"""
    fnode = u.methods["__init__"]
    a = fnode.args
    names = [x.arg for x in a.args]
    if names[:2] != ["self", "points"] or len(names) != 4: raise TranslateError(f"__init__: parameters {names}")
    f = Fn.__new__(Fn)
    f.u, f.py, f.lean, f.fn = u, "__init__", "init", fnode
    f.pnames, f.ptypes = names[2:3], ["nat"]
    f.env = {names[2]: "nat"}
    f.fixed = FIXED_P + " (n dim : Nat) (piv : Nat → List Rat → Rat)"
    f.fixed_args = " P n dim piv"
    f.ret, f.nodes_expr, f.state, f.find_pivot, f.fuel = None, "s.nodes", True, None, "fuel"
    f.deques, f.aux, f.ntmp, f.nloop, f.pre, f.ghost = {}, [], 0, 0, [], {}
    f.scan_deques()
    body = _body(fnode)
    pts = names[1]
    copies = None
    rest = []
    seen_nodes = seen_nid = False
    i = 0
    info = {}
    # --- prologue: argument normalisation / validation / attribute initialisation
    while i < len(body):
        st = body[i]
        src = ast.unparse(st)
        if isinstance(st, ast.Assign) and len(st.targets) == 1 and _name(st.targets[0], pts) and _call(st.value) in ("np.array", "numpy.array", "np.asarray", "numpy.asarray", "np.asanyarray", "np.copy", "numpy.copy") \
                and len(st.value.args) >= 1 and _name(st.value.args[0], pts):
            kw = {k.arg: ast.unparse(k.value) for k in st.value.keywords}
            copies = _call(st.value) in ("np.array", "numpy.array", "np.copy", "numpy.copy") and kw.get("copy", "True") == "True"
        elif isinstance(st, ast.If) and any(isinstance(x, ast.Raise) for x in st.body) and "shape" in ast.unparse(st.test):
            pass        # shape validation of the argument
        elif isinstance(st, ast.Assign) and _is_self(st.targets[0], "points"):
            if not _name(st.value, pts): raise TranslateError(f"__init__: `{src[:60]}`")
            if copies is None: copies = False
        elif isinstance(st, ast.Assign) and isinstance(st.targets[0], ast.Tuple) and [ast.unparse(x) for x in st.targets[0].elts] == ["self.n_pts", "self.dim"]:
            if ast.unparse(st.value) != f"{pts}.shape": raise TranslateError(f"__init__: `{src[:60]}`")
        elif isinstance(st, ast.Expr) and _call(st.value, "check_argument"):
            pass
        elif isinstance(st, ast.Assign) and _is_self(st.targets[0], "build_strategy"):
            pass
        elif isinstance(st, ast.Assign) and _is_self(st.targets[0], "nodes"):
            if not (isinstance(st.value, ast.List) and not st.value.elts): raise TranslateError(f"__init__: `{src[:60]}`")
            seen_nodes = True
        elif isinstance(st, ast.Assign) and _is_self(st.targets[0], "_nid"):
            if not (isinstance(st.value, ast.Constant) and st.value.value == 0): raise TranslateError(f"__init__: `{src[:60]}`")
            seen_nid = True
        else:
            break
        i += 1
    if not (seen_nodes and seen_nid): raise TranslateError("__init__: `self.nodes = []` / `self._nid = 0` not found before the construction")
    if copies is None: raise TranslateError("__init__: how the points are stored was not recognised")
    rest = body[i:]
    if not rest or not isinstance(rest[-1], ast.While): raise TranslateError("__init__: the construction loop must be the last statement")

    def done():
        return "some s"
    txt = f.block(rest, done, None)
    ps = f"(v_{names[2]} : Nat)"
    out = "".join(x + "\n" for x in f.aux)
    out += ("/-- `KDTree.__init__` after the argument checks: `self.nodes = []`, `self._nid = 0`, the root leaf, the construction loop -/\n"
            f"def init{f.fixed} {ps} (fuel : Nat) : Option BSt :=\n" + ind("let s : BSt := { nodes := [], nid := 0 }\n" + txt) + "\n")
    return out, copies


def compile_query(u, pyname, lean, rty):
    f = Fn(u, pyname, lean, ["pt", rty], FIXED_P + " (nodes : List FNode)", None, nodes_expr="nodes")
    f.fixed_args = " P nodes"
    body = _body(f.fn)
    if not body or not isinstance(body[-1], ast.Return): raise TranslateError(f"{pyname}: the last statement must be the return")

    def ret(st):
        v = st.value
        # `[found.pop().x for _ in range(n_found)][::-1]`
        if isinstance(v, ast.Subscript) and isinstance(v.slice, ast.Slice) and v.slice.lower is None and v.slice.upper is None \
                and v.slice.step is not None and ast.unparse(v.slice.step) == "-1" and isinstance(v.value, ast.ListComp):
            lc = v.value
            g = lc.generators[0]
            if len(lc.generators) == 1 and not g.ifs and _call(g.iter, "range") and len(g.iter.args) == 1 \
                    and isinstance(lc.elt, ast.Attribute) and lc.elt.attr == "x" and isinstance(lc.elt.value, ast.Call) \
                    and isinstance(lc.elt.value.func, ast.Attribute) and lc.elt.value.func.attr == "pop" and not lc.elt.value.args:
                q, qty = f.E(lc.elt.value.func.value)
                cnt, cty = f.E(g.iter.args[0])
                if qty == "pq" and cty == "nat": return f"some (pqDrainRev {q} {cnt})"
            raise TranslateError(f"{pyname}: return expression `{ast.unparse(v)[:80]}`")
        x, ty = f.E(v)
        if ty != "natlist": raise TranslateError(f"{pyname}: returns a value of type {ty}")
        return f"some {x}"
    f.ret_stmt = ret
    txt = f.block(body, lambda: (_ for _ in ()).throw(TranslateError(f"{pyname}: no return")), None)
    ps = " ".join(f"({f.v(p)} : {TY[t]})" for p, t in zip(f.pnames, f.ptypes))
    out = "".join(x + "\n" for x in f.aux)
    out += (f"/-- `KDTree.{pyname}` (`none` = exception or out of fuel) -/\n"
            f"def {lean}{f.fixed} {ps} (fuel : Nat) : Option (List Nat) :=\n" + ind(txt) + "\n")
    return out


HEADER = ("import Mouette.Model.KDSource\n"
          "set_option linter.unusedVariables false\n"
          "namespace Mouette.Generated.C11S\n"
          "open Mouette.KD Mouette.KDS Mouette.AABB Mouette.AABB.EQ\n\n")


def translate():
    """-> list of site records; writes lean/Mouette/Generated/C11Src.lean"""
    sites = []
    chunks = {}
    try:
        tree, _ = T.load(FILE)
        u = Unit(tree)
    except Exception as e:  # noqa
        T.write_generated("C11Src", "namespace Mouette.Generated.C11S\nend Mouette.Generated.C11S\n", HEADER.split("namespace")[0])
        return [{"site": "kdtree.py: class KDTree", "ok": False, "detail": f"{type(e).__name__}: {e}"}]

    def s_fields():
        for nm in ("Leaf", "Node"):
            chunks["fields" + nm] = (f"/-- field order of the dataclass `KDTree.{nm}` -/\n"
                                     f"def fields{nm} : List String := [" + ", ".join(f'"{f}"' for f, _ in u.fields[nm]) + "]\n")
        return f"Leaf{[f for f, _ in u.fields['Leaf']]} Node{[f for f, _ in u.fields['Node']]}"

    def s_leaf_size():
        chunks["leafSize"] = compile_leaf_size(u)
        return "return self.points.size"

    def s_new_leaf():
        chunks["newLeaf"] = compile_new_leaf(u)
        return "body compiled"

    def s_split():
        chunks["splitPoints"] = compile_split_points(u)
        return "body compiled"

    def s_is_leaf():
        chunks["isLeaf"] = compile_is_leaf(u)
        return "body compiled"

    def s_init():
        txt, copies = compile_init(u)
        chunks["init"] = (f"/-- `points = np.array(points)` in `__init__`: the tree stores a COPY of the caller's array -/\n"
                          f"def ctorCopiesPoints : Bool := {'true' if copies else 'false'}\n\n" + txt)
        return f"prologue matched (copy of the points: {copies}), construction loop compiled"

    def s_query():
        chunks["query"] = compile_query(u, "query", "query", "nat")
        return "body compiled"

    def s_radius():
        chunks["radius"] = compile_query(u, "query_radius", "queryRadius", "rat")
        return "body compiled"

    def s_strategy():
        txt, rows = compile_strategy(u)
        t2, lst = compile_init_strategy(u)
        chunks["strategy"] = txt + "\n" + t2
        return f"from_string {rows}; accepted {lst}"

    def s_find_pivot():
        chunks["findPivot"] = compile_find_pivot(u)
        return "body compiled"

    for name, fn in (("kdtree.py: KDTree.BuildStrategy + from_string + the strategies __init__ accepts", s_strategy),
                     ("kdtree.py: KDTree._find_pivot (body)", s_find_pivot),
                     ("kdtree.py: dataclasses KDTree.Leaf / KDTree.Node (field order)", s_fields),
                     ("kdtree.py: KDTree.Leaf.size (body)", s_leaf_size), ("kdtree.py: KDTree._new_leaf (body)", s_new_leaf),
                     ("kdtree.py: KDTree._split_points (body)", s_split), ("kdtree.py: KDTree.is_leaf (body)", s_is_leaf),
                     ("kdtree.py: KDTree.__init__ (body)", s_init), ("kdtree.py: KDTree.query (body)", s_query),
                     ("kdtree.py: KDTree.query_radius (body)", s_radius)):
        sites.append(T.site(name, fn))
    order = ["strategy", "findPivot", "fieldsLeaf", "fieldsNode", "leafSize", "newLeaf", "splitPoints", "isLeaf", "init", "query", "radius"]
    body = "\n".join(chunks.get(k, "") for k in order) + "\nend Mouette.Generated.C11S\n"
    T.write_generated("C11Src", body, HEADER)
    return sites
