"""C19 round 5 — WHOLE-FUNCTION translation of the exports and constructors of mouette/splines/bezier.py:
Python `ast` -> Lean (lean/Mouette/Generated/C19Bez{Poly,Surf,Init}.lean), re-extracted from $MOUETTE_REPO on every run.

`BezierCurve.as_polyline`, `BezierPatch.as_surface`: every statement in order, over the vocabulary of Model/BezierSource.lean
  x = e                       `let x := e`
  x = <self.evaluate(..) | self._evaluate_row(..) | de_casteljau(..)>; REST      `Res.bind (<call>) (fun x => REST)` (the call may raise)
  if c: A [elif/else: B]; REST   `if c then <A;REST> else <B;REST>` (continuation duplicated)
  out = RawMeshData(); out.vertices.append(e) / out.edges.append(t) / out.faces.append(t)   `RawOut.new`, `RawOut.append*`
  h = out.vertices.create_attribute(name, float[, n]);  h[k] = v                              `RawOut.setAttr out k v` (+ descriptor)
  k = 0; k += 1               lets (loop-carried when updated inside a loop)
  for x in range(e) / for i,x in enumerate(xs): BODY; REST
                              `Res.bind (forE <list> <state> (fun st x => <BODY> .ok <state>)) (fun st => REST)` where <state> is the
                              tuple of the outer names the body re-binds or mutates (in order of first binding)
  return PolyLine(out) / SurfaceMesh(out)      `.ok out`
`BezierCurve.__init__`, `BezierPatch.__init__`: the comprehension that builds `self.pts` (one `Vec(x)` per control point, order kept).

Tolerated respellings: renamed locals (alpha-renamed by Lean), `a > b` = `b < a`, commuted `==`, `k = k + 1` vs `k += 1`, `x is not None`
vs `not x is None`, docstrings / pass / annotations / log calls, `elif` vs nested `else: if`.  Anything else: TranslateError.
"""
import ast
from fractions import Fraction

from .. import translate as T
from ..translate import TranslateError
from .c19_fn_translate import _chain, _is, _lit, _rat, _strip, _LEAN_KW

BEZIER = "mouette/splines/bezier.py"
HEAD = ("import Mouette.Model.BezierSource\nnamespace Mouette.Generated.C19Bez\n"
        "open Mouette.SamplingSrc Mouette.BezierSrc\n\n")
END = "\nend Mouette.Generated.C19Bez\n"
_KW = _LEAN_KW | {"evaluate", "evaluate_row", "dcv", "vec", "st", "out_"}
RAISING = {"self.evaluate": ("evaluate", ["scalar"], "row"), "self._evaluate_row": ("evaluate_row", ["scalar"], "rows"),
           "de_casteljau": ("dcv", ["rows", "scalar"], "row")}


class Cx:
    def __init__(self, name, allowed):
        self.name, self.allowed, self.used = name, allowed, set()
        self.handles = {}       # handle name -> (owner, attribute name, size)
        self.attrs = []
        self.tmp = 0

    def ln(self, py):
        return py + "_" if py in _KW else py


def _co(v, want):
    a, t = v
    if t == "lit":
        f = Fraction(a)
        if want == "nat":
            if f.denominator != 1 or f < 0: raise TranslateError(f"literal {a} used as a natural number")
            return str(f.numerator)
        return _rat(f)
    return a


def ev(cx, node, env):
    """pure expressions -> (lean, type); types: nat, scalar, lit, bool, ratlist, row, rows, natlist, optlist, out, handle"""
    f = _lit(node)
    if f is not None: return (str(f), "lit")
    if isinstance(node, ast.Name):
        if node.id in env: return (cx.ln(node.id), env[node.id])
        raise TranslateError(f"{cx.name}: name `{node.id}` is not bound")
    if isinstance(node, ast.Subscript):
        a, t = ev(cx, node.value, env)
        i, it = ev(cx, node.slice, env)
        if t in ("ratlist", "row") and it in ("nat", "lit"):
            return (f"({a}.getD {_co((i, it), 'nat')} 0)", "scalar")
        raise TranslateError(f"{cx.name}: unsupported indexing {ast.unparse(node)}")
    if isinstance(node, ast.Attribute) and node.attr == "size":
        a, t = ev(cx, node.value, env)
        if t == "row": return (f"{a}.length", "nat")
    if isinstance(node, ast.Call):
        ch = _chain(node.func)
        if ch == ["Vec"] and node.args and not node.keywords:
            parts = [ev(cx, z, env) for z in node.args]
            if all(t in ("scalar", "lit") for _, t in parts):
                return ("[" + ", ".join(_co(p, "scalar") for p in parts) + "]", "row")
        if ch == ["len"] and len(node.args) == 1 and not node.keywords:
            a, t = ev(cx, node.args[0], env)
            if t in ("ratlist", "row", "rows"): return (f"{a}.length", "nat")
        if ch == ["np", "linspace"] and len(node.args) == 3 and not node.keywords and _lit(node.args[0]) == 0 and _lit(node.args[1]) == 1:
            n, t = ev(cx, node.args[2], env)
            if t == "nat": return (f"(linspaceV {n})", "ratlist")
        if ch == ["RawMeshData"] and not node.args and not node.keywords:
            return ("RawOut.new", "out")
        raise TranslateError(f"{cx.name}: unsupported call {ast.unparse(node)[:100]}")
    if isinstance(node, ast.Tuple):
        parts = [ev(cx, z, env) for z in node.elts]
        if all(t in ("nat", "lit") for _, t in parts):
            return ("[" + ", ".join(_co(p, "nat") for p in parts) + "]", "natlist")
        raise TranslateError(f"{cx.name}: unsupported tuple {ast.unparse(node)}")
    if isinstance(node, ast.BinOp) and type(node.op) in (ast.Add, ast.Sub, ast.Mult):
        (a, ta), (b, tb) = ev(cx, node.left, env), ev(cx, node.right, env)
        sym = {ast.Add: "+", ast.Sub: "-", ast.Mult: "*"}[type(node.op)]
        if {ta, tb} <= {"nat", "lit"} and "nat" in (ta, tb):
            return (f"({_co((a, ta), 'nat')} {sym} {_co((b, tb), 'nat')})", "nat")
        raise TranslateError(f"{cx.name}: unsupported arithmetic {ast.unparse(node)} ({ta},{tb})")
    if isinstance(node, ast.UnaryOp) and isinstance(node.op, ast.Not):
        if isinstance(node.operand, ast.Compare) and len(node.operand.ops) == 1 and isinstance(node.operand.ops[0], ast.Is):
            c = node.operand
            return ev(cx, ast.Compare(c.left, [ast.IsNot()], c.comparators), env)
        a, t = ev(cx, node.operand, env)
        if t == "bool": return (f"(!{a})", "bool")
    if isinstance(node, ast.Compare) and len(node.ops) == 1:
        o, l, r = node.ops[0], node.left, node.comparators[0]
        if isinstance(o, (ast.Is, ast.IsNot)) and isinstance(r, ast.Constant) and r.value is None:
            a, t = ev(cx, l, env)
            if t == "optlist": return (f"{a}.isSome" if isinstance(o, ast.IsNot) else f"(!{a}.isSome)", "bool")
        (a, ta), (b, tb) = ev(cx, l, env), ev(cx, r, env)
        if isinstance(o, (ast.Gt, ast.GtE)):
            (a, ta), (b, tb) = (b, tb), (a, ta); o = ast.Lt() if isinstance(o, ast.Gt) else ast.LtE()
        if isinstance(o, (ast.Eq, ast.NotEq)) and ta == "lit" and tb != "lit": (a, ta), (b, tb) = (b, tb), (a, ta)
        sym = {ast.Lt: "<", ast.LtE: "≤", ast.Eq: "=", ast.NotEq: "≠"}.get(type(o))
        if sym and {ta, tb} <= {"nat", "lit"} and "nat" in (ta, tb):
            return (f"decide ({_co((a, ta), 'nat')} {sym} {_co((b, tb), 'nat')})", "bool")
    raise TranslateError(f"{cx.name}: unsupported expression {ast.unparse(node)[:100]}")


def raising_call(cx, node, env):
    """`self.evaluate(t)` etc. -> (lean call, result type) or None"""
    if isinstance(node, ast.Call) and not node.keywords:
        key = ast.unparse(node.func)
        if key in RAISING:
            fn, argt, rt = RAISING[key]
            if fn not in cx.allowed: raise TranslateError(f"{cx.name}: unexpected call to {key}")
            if len(node.args) != len(argt): raise TranslateError(f"{cx.name}: {key} called with {len(node.args)} arguments")
            args = []
            for z, want in zip(node.args, argt):
                a, t = ev(cx, z, env)
                if t == "lit" and want == "scalar": a, t = _co((a, t), "scalar"), "scalar"
                if t != want: raise TranslateError(f"{cx.name}: argument `{ast.unparse(z)}` of {key} is a {t}, expected {want}")
                args.append(a)
            cx.used.add(fn)
            return (f"{fn} " + " ".join(args), rt)
    return None


def _assigned(stmts, env, cx):
    """outer names a loop body re-binds or mutates, in order of appearance"""
    out = []

    def add(n):
        if n in env and env[n] != "handle" and n not in out: out.append(n)
    for s in stmts:
        for n in ast.walk(s):
            if isinstance(n, ast.Assign):
                for t in n.targets:
                    if isinstance(t, ast.Name): add(t.id)
                    if isinstance(t, ast.Subscript) and isinstance(t.value, ast.Name) and t.value.id in cx.handles: add(cx.handles[t.value.id][0])
            if isinstance(n, ast.AugAssign) and isinstance(n.target, ast.Name): add(n.target.id)
            if isinstance(n, ast.Call) and isinstance(n.func, ast.Attribute) and n.func.attr == "append":
                ch = _chain(n.func)
                if ch and len(ch) == 3: add(ch[0])
    return out


def _state(cx, names):
    if len(names) == 1: return cx.ln(names[0])
    return "(" + ", ".join(cx.ln(n) for n in names) + ")"


def _unpack(cx, names, pad, var="st"):
    if len(names) == 1: return pad + f"let {cx.ln(names[0])} := {var}\n"
    out = ""
    for k, n in enumerate(names):
        proj = ".2" * k + (".1" if k < len(names) - 1 else "")
        out += pad + f"let {cx.ln(n)} := {var}{proj}\n"
    return out


def compile_block(cx, stmts, env, ind, end):
    """CPS: Lean text for stmts followed by `end(env, ind)` when the block falls through"""
    stmts = _strip(stmts)
    pad = "  " * ind
    if not stmts: return end(env, ind)
    s, rest = stmts[0], stmts[1:]
    env = dict(env)
    go = lambda e=None: compile_block(cx, rest, e if e is not None else env, ind, end)
    if isinstance(s, ast.AnnAssign) and s.value is not None: s = ast.Assign([s.target], s.value)
    if isinstance(s, ast.AugAssign) and isinstance(s.target, ast.Name):
        s = ast.Assign([ast.Name(s.target.id, ast.Store())], ast.BinOp(ast.Name(s.target.id, ast.Load()), s.op, s.value))
    if isinstance(s, ast.Assign) and len(s.targets) == 1:
        tg, val = s.targets[0], s.value
        if isinstance(tg, ast.Name):
            if isinstance(val, ast.Call) and isinstance(val.func, ast.Attribute) and val.func.attr == "create_attribute":
                own = val.func.value
                if isinstance(own, ast.Attribute) and own.attr == "vertices" and isinstance(own.value, ast.Name) and env.get(own.value.id) == "out" \
                        and not val.keywords and 2 <= len(val.args) <= 3 and isinstance(val.args[0], ast.Constant) and isinstance(val.args[0].value, str) \
                        and ast.unparse(val.args[1]) == "float":
                    size = 1 if len(val.args) == 2 else _lit(val.args[2])
                    if size is None or Fraction(size).denominator != 1: raise TranslateError(f"{cx.name}: attribute size {ast.unparse(val)}")
                    cx.handles[tg.id] = (own.value.id, val.args[0].value, int(size))
                    if (val.args[0].value, int(size)) not in cx.attrs: cx.attrs.append((val.args[0].value, int(size)))
                    env[tg.id] = "handle"
                    return go(env)
                raise TranslateError(f"{cx.name}: unsupported attribute creation {ast.unparse(s)}")
            rc = raising_call(cx, val, env)
            if rc is not None:
                call, rt = rc
                env[tg.id] = rt
                return pad + f"Res.bind ({call}) (fun {cx.ln(tg.id)} =>\n" + go(env).rstrip("\n") + ")\n"
            a, t = ev(cx, val, env)
            if t == "lit": a, t = _co((a, t), "nat"), "nat"          # integer counters (`k = 0`)
            if t == "optlist":                                        # `points = custom_pos` on the `is not None` path
                a, t = f"({a}.getD [])", "ratlist"
            env[tg.id] = t
            return pad + f"let {cx.ln(tg.id)} := {a}\n" + go(env)
        if isinstance(tg, ast.Subscript) and isinstance(tg.value, ast.Name) and tg.value.id in cx.handles and env.get(tg.value.id) == "handle":
            own, _, size = cx.handles[tg.value.id]
            k, kt = ev(cx, tg.slice, env)
            v, vt = ev(cx, val, env)
            if kt not in ("nat", "lit"): raise TranslateError(f"{cx.name}: attribute key {ast.unparse(tg.slice)}")
            if vt in ("scalar", "lit") and size == 1: v = f"[{_co((v, vt), 'scalar')}]"
            elif vt == "row" and size > 1: pass
            else: raise TranslateError(f"{cx.name}: attribute value `{ast.unparse(val)}` does not fit an attribute of size {size}")
            o = cx.ln(own)
            return pad + f"let {o} := (RawOut.setAttr {o} {_co((k, kt), 'nat')} {v})\n" + go()
        raise TranslateError(f"{cx.name}: unsupported assignment {ast.unparse(s)[:100]}")
    if isinstance(s, ast.Expr) and isinstance(s.value, ast.Call) and isinstance(s.value.func, ast.Attribute) and s.value.func.attr == "append":
        ch = _chain(s.value.func)
        if ch and len(ch) == 3 and env.get(ch[0]) == "out" and ch[1] in ("vertices", "edges", "faces") and len(s.value.args) == 1 and not s.value.keywords:
            o = cx.ln(ch[0])
            arg = s.value.args[0]
            fn, want = {"vertices": ("appendVert", "row"), "edges": ("appendEdge", "natlist"), "faces": ("appendFace", "natlist")}[ch[1]]
            rc = raising_call(cx, arg, env)
            if rc is not None:
                call, rt = rc
                if rt != want: raise TranslateError(f"{cx.name}: {ast.unparse(s)} appends a {rt}")
                cx.tmp += 1
                tmp = f"v{cx.tmp}"
                return pad + f"Res.bind ({call}) (fun {tmp} =>\n" + pad + f"let {o} := (RawOut.{fn} {o} {tmp})\n" + go().rstrip("\n") + ")\n"
            a, t = ev(cx, arg, env)
            if t != want: raise TranslateError(f"{cx.name}: {ast.unparse(s)} appends a {t}, expected a {want}")
            return pad + f"let {o} := (RawOut.{fn} {o} {a})\n" + go()
        raise TranslateError(f"{cx.name}: unsupported append {ast.unparse(s)}")
    if isinstance(s, ast.If):
        tst = s.test
        if isinstance(tst, ast.UnaryOp) and isinstance(tst.op, ast.Not) and isinstance(tst.operand, ast.Compare) and len(tst.operand.ops) == 1 \
                and isinstance(tst.operand.ops[0], ast.IsNot):
            tst = ast.Compare(tst.operand.left, [ast.Is()], tst.operand.comparators)
        if isinstance(tst, ast.Compare) and len(tst.ops) == 1 and isinstance(tst.ops[0], ast.Is) and s.orelse:
            # `if x is None: A else: B`  ==  `if x is not None: B else: A`   (canonical: the `is not None` spelling)
            s = ast.If(ast.Compare(tst.left, [ast.IsNot()], tst.comparators), s.orelse, s.body)
        c, t = ev(cx, s.test, env)
        if t != "bool": raise TranslateError(f"{cx.name}: test is not Boolean: {ast.unparse(s.test)}")
        th = compile_block(cx, list(s.body) + rest, env, ind + 1, end)
        el = compile_block(cx, list(s.orelse) + rest, env, ind + 1, end)
        return pad + f"if {c} then\n" + th + pad + "else\n" + el
    if isinstance(s, ast.For) and not s.orelse:
        it = s.iter
        if isinstance(it, ast.Call) and _chain(it.func) == ["range"] and len(it.args) == 1 and isinstance(s.target, ast.Name):
            n, nt = ev(cx, it.args[0], env)
            if nt not in ("nat", "lit"): raise TranslateError(f"{cx.name}: range bound {ast.unparse(it)}")
            lst, binds = f"(List.range {_co((n, nt), 'nat')})", [(s.target.id, "nat", "x")]
        elif isinstance(it, ast.Call) and _chain(it.func) == ["enumerate"] and len(it.args) == 1 and isinstance(s.target, ast.Tuple) \
                and len(s.target.elts) == 2 and all(isinstance(e, ast.Name) for e in s.target.elts):
            xs, xt = ev(cx, it.args[0], env)
            if xt != "ratlist": raise TranslateError(f"{cx.name}: enumerate over a {xt}")
            lst, binds = f"({xs}.zipIdx)", [(s.target.elts[1].id, "scalar", "x.1"), (s.target.elts[0].id, "nat", "x.2")]
        else:
            raise TranslateError(f"{cx.name}: unsupported loop header {ast.unparse(s.iter)}")
        carried = _assigned(s.body, env, cx)
        if not carried: raise TranslateError(f"{cx.name}: loop without effect")
        benv = dict(env)
        head = pad + f"Res.bind (forE {lst} {_state(cx, carried)} (fun st x =>\n" + _unpack(cx, carried, pad + "    ")
        for nm, ty, src in binds:
            benv[nm] = ty
            head += pad + f"    let {cx.ln(nm)} := {src}\n"
        body = compile_block(cx, s.body, benv, ind + 2, lambda e, i: "  " * i + f".ok {_state(cx, carried)}\n")
        tail = pad + f"  )) (fun st =>\n" + _unpack(cx, carried, pad)
        return head + body + tail + go().rstrip("\n") + ")\n"
    if isinstance(s, ast.Return):
        v = s.value
        if isinstance(v, ast.Call) and _chain(v.func) in (["PolyLine"], ["SurfaceMesh"]) and len(v.args) == 1 and not v.keywords:
            a, t = ev(cx, v.args[0], env)
            if t == "out":
                cx.returns = _chain(v.func)[0]
                return pad + f".ok {a}\n"
        raise TranslateError(f"{cx.name}: unsupported return {ast.unparse(s)}")
    raise TranslateError(f"{cx.name}: unsupported statement {ast.unparse(s)[:100]}")


def _no_end(name):
    def end(env, ind):
        raise TranslateError(f"{name}: a path reaches the end of the function without `return`")
    return end


def _defaults(fn):
    a = fn.args
    names = [x.arg for x in a.args]
    return [(nm, ast.unparse(d)) for nm, d in zip(names[len(names) - len(a.defaults):], a.defaults)]


def _export(qual, file, lname, params, sig, allowed, wanted_return):
    tree, _ = T.load(BEZIER)
    fn = T.find_def(tree, qual)
    args = [a.arg for a in fn.args.args]
    if args != ["self"] + [p for p, _ in params]: raise TranslateError(f"{qual}: signature changed: {args}")
    cx = Cx(qual, allowed)
    cx.returns = None
    body = compile_block(cx, fn.body, dict(params), 1, _no_end(qual))
    if cx.returns != wanted_return: raise TranslateError(f"{qual}: returns {cx.returns}, expected {wanted_return}")
    dfl = _defaults(fn)
    out = HEAD + f"/-- `{qual}` (mouette/splines/bezier.py), whole body, statement by statement -/\n"
    out += f"def {lname} {sig} : Res RawOut :=\n{body}"
    out += f"\n/-- defaults of the `def` line, vertex attributes created (name, size), mesh class returned -/\n"
    out += f"def {lname}_defaults : List (String × String) := [" + ", ".join(f'("{a}", "{b}")' for a, b in dfl) + "]\n"
    out += f"def {lname}_attrs : List (String × Nat) := [" + ", ".join(f'("{a}", {b})' for a, b in cx.attrs) + "]\n"
    out += f'def {lname}_returns : String := "{cx.returns}"\n' + END
    _, sha = T.write_generated(file, out)
    return {"sha": sha, "defaults": dfl, "attrs": cx.attrs, "calls": sorted(cx.used), "lines": body.count("\n")}


def site_as_polyline():
    return _export("BezierCurve.as_polyline", "C19BezPoly", "as_polyline", [("n_pts", "nat"), ("custom_pos", "optlist")],
                   "(evaluate : Rat → Res Row) (n_pts : Nat) (custom_pos : Option (List Rat))", {"evaluate"}, "PolyLine")


def site_as_surface():
    return _export("BezierPatch.as_surface", "C19BezSurf", "as_surface", [("n1", "nat"), ("n2", "nat")],
                   "(evaluate_row : Rat → Res (List Row)) (dcv : List Row → Rat → Res Row) (n1 n2 : Nat)", {"evaluate_row", "dcv"}, "SurfaceMesh")


def _vec_comp(node, over):
    """`[Vec(x) for x in <over>]` -> True"""
    if isinstance(node, ast.ListComp) and len(node.generators) == 1:
        g = node.generators[0]
        return isinstance(g.target, ast.Name) and not g.ifs and ast.unparse(g.iter) == over and ast.unparse(node.elt) in (f"Vec({g.target.id})",)
    return False


def site_inits():
    tree, _ = T.load(BEZIER)
    out = HEAD
    det = {}
    for cls in ("BezierCurve", "BezierPatch"):
        fn = T.find_def(tree, cls + ".__init__")
        args = [a.arg for a in fn.args.args]
        if len(args) != 2 or args[0] != "self": raise TranslateError(f"{cls}.__init__ signature changed: {args}")
        cp = args[1]
        body = _strip(fn.body)
        if len(body) != 1 or not isinstance(body[0], ast.Assign) or ast.unparse(body[0].targets[0]) != "self.pts":
            raise TranslateError(f"{cls}.__init__ is not the single assignment `self.pts = ...`")
        v = body[0].value
        if isinstance(v, ast.Call) and _chain(v.func) == ["DataContainer"] and len(v.args) == 1 and all(k.arg == "id" for k in v.keywords):
            v = v.args[0]                                  # the container keeps the list, in order
        if cls == "BezierCurve":
            if not _vec_comp(v, cp): raise TranslateError(f"BezierCurve.__init__: control points are not [Vec(x) for x in {cp}]: {ast.unparse(v)}")
            out += "/-- `BezierCurve.__init__`: `self.pts` = one `Vec(x)` per control point, in order (`vec` = the conversion of one point) -/\n"
            out += "def curveInit {α : Type} (vec : α → Row) (control_points : List α) : List Row :=\n  control_points.map (fun x => vec x)\n"
            det["curve"] = "control_points.map vec"
        else:
            ok = isinstance(v, ast.ListComp) and len(v.generators) == 1 and isinstance(v.generators[0].target, ast.Name) and not v.generators[0].ifs \
                and ast.unparse(v.generators[0].iter) == cp and _vec_comp(v.elt, v.generators[0].target.id)
            if not ok: raise TranslateError(f"BezierPatch.__init__: control net is not [[Vec(x) for x in l] for l in {cp}]: {ast.unparse(v)}")
            out += "/-- `BezierPatch.__init__`: `self.pts` = the rows of the control net, each point converted, order kept in both directions -/\n"
            out += "def patchInit {α : Type} (vec : α → Row) (control_points : List (List α)) : List (List Row) :=\n  control_points.map (fun l => l.map (fun x => vec x))\n"
            det["patch"] = "control_points.map (·.map vec)"
    out += END
    _, sha = T.write_generated("C19BezInit", out)
    det["sha"] = sha
    return det


SITES = [
    ("bezier.py: BezierCurve.as_polyline (WHOLE body: position dispatch, vertex loop with dimension dispatch, attribute, edge loop)", site_as_polyline, ["C19BezPoly"]),
    ("bezier.py: BezierPatch.as_surface (WHOLE body: vertex loop nest with counter and uv attribute, face loop nest)", site_as_surface, ["C19BezSurf"]),
    ("bezier.py: BezierCurve.__init__ / BezierPatch.__init__ (how self.pts is built from the control points)", site_inits, ["C19BezInit"]),
]


def translate():
    return [T.site(n, f) for n, f, _ in SITES]
