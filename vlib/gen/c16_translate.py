"""C16 translated fragments: Python `ast` -> Lean (lean/Mouette/Generated/C16Cut.lean), re-extracted on every run from
$MOUETTE_REPO/mouette/processing/cutting.py (class SingularityCutter). Vocabulary: lean/Mouette/Model/CutSource.lean.

Read IMPERATIVELY (statement order, loops as folds / fuel, guards, index expressions, which container is written, resets):

  _build_cut_edges_tree   `cut_edges = set(id_edges) - evisited`, the reset of `cut_adj`, the loop adding both directions
  _prune_edge_tree        queue initialisation loop with its guard, `while len(queue)>0` (Cond / Body / While on fuel),
                          `popleft`, the loop over `cut_adj[A]` (remove from `cut_adj[B]`, `cut_edges.remove(edge_id(A,B))`,
                          guard + append), the reset `cut_adj[A] = set()`
  _build_mesh_with_cuts   three loops: corner numbering (`[kF+_i ..]`, `vertices.append`, `duplicate_vertices[v].add(kF+iv)`,
                          `kF += nF`), the union loop (guard `e not in cut_edges`, the two `direct_face` calls with their
                          argument order and unpacking order, the two `uf.union(faces[..][..], faces[..][..])`), the `imap`
                          numbering loop (`if v in imap: continue; imap[v]=i; i+=1`). The stages in between (find on every
                          corner, order_verts, ref_vertex) stay hand-modelled.
  run / _run_no_features / _run_with_features   the sequence of stage calls and what is passed from one to the next; the
                          stages that are not modelled (spanning tree, dual tree) are parameters.

Tolerated respellings (normalised away, the generated text does not change): renamed locals (alpha-renaming in binding order),
operand order of `==` and of `and`, `a > b` / `b < a`, `not x in y` / `x not in y`, `while queue:` / `len(queue) != 0` / `len(queue) >= 1` for
`len(queue) > 0`, `x += 1` / `x = x + 1`, a local that is only a name for a pure expression used in the NEXT statement
(`d = len(..)`; `if d == 1 ..`), docstrings, comments, `pass`, `self.log(..)` calls, type annotations.
Anything else raises TranslateError -> the site is a broken obligation -> failing-input search (props/c16.py).
"""
import ast
import copy

from .. import translate as T
from ..translate import TranslateError

FILE = "mouette/processing/cutting.py"
CLS = "SingularityCutter"


# ------------------------------------------------------------------------------------------------------------------
# normalisation
# ------------------------------------------------------------------------------------------------------------------
def _callfree(n):
    return not any(isinstance(x, ast.Call) for x in ast.walk(n))


def _is_len_of(n, name):
    return isinstance(n, ast.Call) and isinstance(n.func, ast.Name) and n.func.id == "len" and len(n.args) == 1 \
        and isinstance(n.args[0], ast.Name) and n.args[0].id == name


class Norm(ast.NodeTransformer):
    def visit_UnaryOp(self, n):
        self.generic_visit(n)
        if isinstance(n.op, ast.Not) and isinstance(n.operand, ast.Compare) and len(n.operand.ops) == 1:
            c = n.operand
            flip = {ast.Eq: ast.NotEq, ast.NotEq: ast.Eq, ast.In: ast.NotIn, ast.NotIn: ast.In}
            if type(c.ops[0]) in flip:
                return ast.copy_location(ast.Compare(c.left, [flip[type(c.ops[0])]()], c.comparators), n)
        return n

    def visit_Compare(self, n):
        self.generic_visit(n)
        if len(n.ops) == 1:
            op, a, b = n.ops[0], n.left, n.comparators[0]
            if isinstance(op, (ast.Gt, ast.GtE)):
                n = ast.copy_location(ast.Compare(b, [ast.Lt() if isinstance(op, ast.Gt) else ast.LtE()], [a]), n)
                op, a, b = n.ops[0], n.left, n.comparators[0]
            if isinstance(op, (ast.Eq, ast.NotEq)):
                ca, cb = isinstance(a, ast.Constant), isinstance(b, ast.Constant)
                if (ca and not cb) or (not ca and not cb and _callfree(a) and _callfree(b) and ast.unparse(a) > ast.unparse(b)):
                    return ast.copy_location(ast.Compare(b, [op], [a]), n)
        return n

    def visit_Assign(self, n):
        self.generic_visit(n)
        if len(n.targets) == 1 and isinstance(n.value, ast.BinOp) and isinstance(n.value.op, ast.Add):
            t, v = n.targets[0], n.value
            if isinstance(t, ast.Name):
                if ast.unparse(v.left) == ast.unparse(t):
                    return ast.copy_location(ast.AugAssign(t, v.op, v.right), n)
                if ast.unparse(v.right) == ast.unparse(t) and _callfree(v.left):
                    return ast.copy_location(ast.AugAssign(t, v.op, v.left), n)
        return n

    def visit_AnnAssign(self, n):
        self.generic_visit(n)
        if n.value is None: return None
        return ast.copy_location(ast.Assign([n.target], n.value), n)


def _is_log(s):
    return isinstance(s, ast.Expr) and isinstance(s.value, ast.Call) and isinstance(s.value.func, ast.Attribute) \
        and s.value.func.attr == "log" and isinstance(s.value.func.value, ast.Name) and s.value.func.value.id == "self"


def _strip(stmts):
    out = []
    for s in stmts:
        if isinstance(s, ast.Pass) or _is_log(s): continue
        if isinstance(s, ast.Expr) and isinstance(s.value, ast.Constant): continue
        out.append(s)
    return out


def _names_used(node):
    return [x.id for x in ast.walk(node) if isinstance(x, ast.Name) and isinstance(x.ctx, ast.Load)]


class _Subst(ast.NodeTransformer):
    def __init__(self, name, expr): self.name, self.expr = name, expr

    def visit_Name(self, n):
        if n.id == self.name and isinstance(n.ctx, ast.Load): return copy.deepcopy(self.expr)
        return n


def _inline_next_use(stmts):
    """`d = <pure expr>` followed by a statement that is the ONLY reader of `d` (in its test / value, not in a nested body that
    writes state first): substitute. Applied recursively to nested bodies."""
    out = list(stmts)
    i = 0
    while i < len(out) - 1:
        s = out[i]
        if isinstance(s, ast.Assign) and len(s.targets) == 1 and isinstance(s.targets[0], ast.Name):
            name = s.targets[0].id
            nxt = out[i + 1]
            later = sum(_names_used(x).count(name) for x in out[i + 2:])
            head = nxt.test if isinstance(nxt, (ast.If, ast.While)) else (nxt.value if isinstance(nxt, (ast.Assign, ast.Expr)) else None)
            if head is not None and later == 0 and _names_used(head).count(name) == 1 and _names_used(nxt).count(name) == 1 \
                    and all(isinstance(x.func, ast.Name) and x.func.id == "len" for x in ast.walk(s.value) if isinstance(x, ast.Call)):
                out[i + 1] = _Subst(name, s.value).visit(nxt)
                del out[i]
                continue
        i += 1
    for s in out:
        for fld in ("body", "orelse"):
            if hasattr(s, fld) and isinstance(getattr(s, fld), list):
                setattr(s, fld, _inline_next_use(_strip(getattr(s, fld))))
    return out


def _method(tree, name):
    fn = T.find_def(tree, f"{CLS}.{name}")
    fn = Norm().visit(copy.deepcopy(fn))
    ast.fix_missing_locations(fn)
    a = fn.args
    if a.vararg or a.kwarg or a.kwonlyargs or a.posonlyargs: raise TranslateError(f"{name}: unsupported signature")
    return fn, [x.arg for x in a.args][1:], _inline_next_use(_strip(fn.body))


# ------------------------------------------------------------------------------------------------------------------
# attribute paths
# ------------------------------------------------------------------------------------------------------------------
def _path(n):
    """dotted path of an attribute chain rooted at a name: self.input_mesh.edges -> 'self.input_mesh.edges'"""
    parts = []
    while isinstance(n, ast.Attribute):
        parts.append(n.attr); n = n.value
    if isinstance(n, ast.Name):
        parts.append(n.id)
        return ".".join(reversed(parts))
    return None


class Env:
    """locals in binding order -> x1, x2, ...; the Lean text for each"""

    def __init__(self, fname):
        self.fname = fname
        self.names = {}
        self.types = {}
        self.n = 0
        self.reads = set()

    def bind(self, py, ty="nat"):
        if py in self.names and self.types[py] == ty:
            return self.names[py]          # rebinding a local keeps its canonical name
        self.n += 1
        self.names[py] = f"x{self.n}"; self.types[py] = ty
        return self.names[py]

    def get(self, py):
        if py not in self.names: raise TranslateError(f"{self.fname}: unbound name {py}")
        return self.names[py], self.types[py]


# ------------------------------------------------------------------------------------------------------------------
# expressions over the cutter's state  (s : St), the parameters E, sing, nV, nE
# ------------------------------------------------------------------------------------------------------------------
def cexpr(n, env, qname="queue"):
    f = env.fname
    if isinstance(n, ast.Constant):
        if isinstance(n.value, bool): return ("true" if n.value else "false"), "bool"
        if isinstance(n.value, int) and n.value >= 0: return str(n.value), "nat"
        raise TranslateError(f"{f}: unsupported constant {n.value!r}")
    if isinstance(n, ast.Name):
        return env.get(n.id)
    p = _path(n)
    if p in ("self.singularities", "self.singu_set"):
        # which of the two containers filled by __init__ is read: recorded (`pruneSingOf`), the bridge `prune_reads_singularities_source`
        # demands that it has exactly the items of the constructor's argument, for every kind of iterable
        env.reads.add(p.split(".")[1])
        return "sing", "natlist"
    if p == "self.cut_edges": return "s.cut", "natlist"
    if isinstance(n, ast.Subscript):
        pv = _path(n.value)
        if pv == "self.cut_adj":
            k, tk = cexpr(n.slice, env)
            if tk != "nat": raise TranslateError(f"{f}: key of cut_adj of type {tk}")
            return f"(s.adj {k})", "natlist"
        if pv == "self.input_mesh.edges":
            k, tk = cexpr(n.slice, env)
            if tk != "nat": raise TranslateError(f"{f}: index of edges of type {tk}")
            return f"(edgeEnds E {k})", "pair"
        if isinstance(n.slice, ast.Constant) and n.slice.value in (0, 1):
            b, tb = cexpr(n.value, env)
            if tb == "pair": return f"{b}.{n.slice.value + 1}", "nat"
        raise TranslateError(f"{f}: unsupported subscript {ast.unparse(n)[:60]}")
    if isinstance(n, ast.Call):
        if n.keywords: raise TranslateError(f"{f}: keyword arguments in {ast.unparse(n)[:60]}")
        if isinstance(n.func, ast.Name) and n.func.id == "len" and len(n.args) == 1:
            a, ta = cexpr(n.args[0], env)
            if ta not in ("natlist", "queue"): raise TranslateError(f"{f}: len of a {ta}")
            return f"{a}.length", "nat"
        if _path(n.func) == "self.input_mesh.connectivity.edge_id" and len(n.args) == 2:
            a, ta = cexpr(n.args[0], env); b, tb = cexpr(n.args[1], env)
            if ta != "nat" or tb != "nat": raise TranslateError(f"{f}: edge_id of {ta},{tb}")
            return f"(edgeId E {a} {b})", "nat"
        raise TranslateError(f"{f}: unsupported call {ast.unparse(n)[:60]}")
    if isinstance(n, ast.UnaryOp) and isinstance(n.op, ast.Not):
        e, t = cexpr(n.operand, env)
        if t == "queue": return f"decide ({e}.length = 0)", "bool"
        if t != "bool": raise TranslateError(f"{f}: `not` of a {t}")
        return f"(!{e})", "bool"
    if isinstance(n, ast.BoolOp) and isinstance(n.op, ast.And):
        parts = [cexpr(v, env) for v in n.values]
        if any(t != "bool" for _, t in parts): raise TranslateError(f"{f}: `and` of non-booleans")
        # conjuncts are pure (no call with an effect can be compiled here): their order is normalised
        es = sorted((e for e, _ in parts), key=lambda e: (0 if ".length" in e else 1, e))
        return "(" + " && ".join(es) + ")", "bool"
    if isinstance(n, ast.BinOp) and isinstance(n.op, ast.Add):
        a, ta = cexpr(n.left, env); b, tb = cexpr(n.right, env)
        if ta != "nat" or tb != "nat": raise TranslateError(f"{f}: `+` on {ta},{tb}")
        return f"({a} + {b})", "nat"
    if isinstance(n, ast.Compare) and len(n.ops) == 1:
        op, a, b = n.ops[0], n.left, n.comparators[0]
        if isinstance(op, (ast.In, ast.NotIn)):
            k, tk = cexpr(a, env); c, tc = cexpr(b, env)
            if tk != "nat" or tc != "natlist": raise TranslateError(f"{f}: membership of {tk} in {tc}")
            r = f"{c}.contains {k}"
            return (f"({r})" if isinstance(op, ast.In) else f"!({r})"), "bool"
        ea, ta = cexpr(a, env); eb, tb = cexpr(b, env)
        if ta != "nat" or tb != "nat": raise TranslateError(f"{f}: comparison of {ta} and {tb}")
        if isinstance(op, ast.Eq): return f"{ea} == {eb}", "bool"
        if isinstance(op, ast.NotEq): return f"{ea} != {eb}", "bool"
        if isinstance(op, ast.Lt): return f"decide ({ea} < {eb})", "bool"
        if isinstance(op, ast.LtE): return f"decide ({ea} ≤ {eb})", "bool"
    raise TranslateError(f"{f}: unsupported expression {ast.unparse(n)[:80]}")


def _queue_nonempty(test, env):
    """`len(queue)>0` and its respellings -> the canonical condition"""
    q = [k for k, t in env.types.items() if t == "queue"]
    if len(q) != 1: raise TranslateError(f"{env.fname}: expected exactly one deque local, found {q}")
    q = q[0]
    t = test
    ok = False
    if isinstance(t, ast.Name) and t.id == q: ok = True                                            # while queue:
    if isinstance(t, ast.Compare) and len(t.ops) == 1:
        op, a, b = t.ops[0], t.left, t.comparators[0]
        if isinstance(op, ast.Lt) and isinstance(a, ast.Constant) and a.value == 0 and _is_len_of(b, q): ok = True     # 0 < len(q)
        if isinstance(op, ast.LtE) and isinstance(a, ast.Constant) and a.value == 1 and _is_len_of(b, q): ok = True    # 1 <= len(q)
        if isinstance(op, ast.NotEq) and {ast.unparse(a), ast.unparse(b)} == {"0", f"len({q})"}: ok = True            # len(q) != 0
    if not ok: raise TranslateError(f"{env.fname}: loop condition `{ast.unparse(test)}` is not `len({q}) > 0`")
    return "decide (0 < s.queue.length)"


class PruneCompiler:
    """`_prune_edge_tree`: statements over the state record `s : St`"""

    def __init__(self):
        self.env = Env("_prune_edge_tree")
        self.aux = []
        self.nfor = 0
        self.nwhile = 0

    def block(self, stmts, ind):
        """-> list of Lean lines (each a `let ... :=` line); the block's value is `s`"""
        env = self.env
        out = []
        for st in stmts:
            # queue = deque()
            if isinstance(st, ast.Assign) and len(st.targets) == 1 and isinstance(st.targets[0], ast.Name) and isinstance(st.value, ast.Call) \
                    and (getattr(st.value.func, "id", None) == "deque" or getattr(st.value.func, "attr", None) == "deque") and not st.value.args:
                env.names[st.targets[0].id] = "s.queue"; env.types[st.targets[0].id] = "queue"
                out.append(f"{ind}let s := {{ s with queue := [] }}")
                continue
            # A = queue.popleft()
            if isinstance(st, ast.Assign) and len(st.targets) == 1 and isinstance(st.targets[0], ast.Name) and isinstance(st.value, ast.Call) \
                    and isinstance(st.value.func, ast.Attribute) and isinstance(st.value.func.value, ast.Name) \
                    and env.types.get(st.value.func.value.id) == "queue" and not st.value.args:
                if st.value.func.attr != "popleft":
                    raise TranslateError(f"_prune_edge_tree: `{ast.unparse(st)}`: the queue is not read with popleft()")
                x = env.bind(st.targets[0].id)
                out.append(f"{ind}let {x} := s.queue.headD 0")
                out.append(f"{ind}let s := {{ s with queue := s.queue.tail }}")
                continue
            # local = pure expression
            if isinstance(st, ast.Assign) and len(st.targets) == 1 and isinstance(st.targets[0], ast.Name):
                e, t = cexpr(st.value, env)
                if t != "nat": raise TranslateError(f"_prune_edge_tree: local `{st.targets[0].id}` of type {t}")
                x = env.bind(st.targets[0].id)
                out.append(f"{ind}let {x} := {e}")
                continue
            # self.cut_adj[k] = set()
            if isinstance(st, ast.Assign) and len(st.targets) == 1 and isinstance(st.targets[0], ast.Subscript) \
                    and _path(st.targets[0].value) == "self.cut_adj":
                v = st.value
                if not (isinstance(v, ast.Call) and getattr(v.func, "id", None) == "set" and not v.args and not v.keywords):
                    raise TranslateError(f"_prune_edge_tree: `{ast.unparse(st)}`: cut_adj[..] is assigned something else than set()")
                k, _ = cexpr(st.targets[0].slice, env)
                out.append(f"{ind}let s := {{ s with adj := sclear s.adj {k} }}")
                continue
            # method calls on containers
            if isinstance(st, ast.Expr) and isinstance(st.value, ast.Call) and isinstance(st.value.func, ast.Attribute) and not st.value.keywords:
                c = st.value; m = c.func.attr; tgt = c.func.value
                if isinstance(tgt, ast.Name) and env.types.get(tgt.id) == "queue" and len(c.args) == 1:
                    if m != "append": raise TranslateError(f"_prune_edge_tree: `{ast.unparse(st)}`: the queue is not written with append()")
                    a, ta = cexpr(c.args[0], env)
                    if ta != "nat": raise TranslateError("_prune_edge_tree: queue element of type " + ta)
                    out.append(f"{ind}let s := {{ s with queue := s.queue ++ [{a}] }}")
                    continue
                if isinstance(tgt, ast.Subscript) and _path(tgt.value) == "self.cut_adj" and len(c.args) == 1 and m in ("remove", "add", "discard"):
                    k, _ = cexpr(tgt.slice, env); a, ta = cexpr(c.args[0], env)
                    if ta != "nat": raise TranslateError("_prune_edge_tree: set element of type " + ta)
                    prim = {"remove": "sremove", "discard": "sremove", "add": "sadd"}[m]
                    out.append(f"{ind}let s := {{ s with adj := {prim} s.adj {k} {a} }}")
                    continue
                if _path(tgt) == "self.cut_edges" and len(c.args) == 1 and m in ("remove", "discard"):
                    a, ta = cexpr(c.args[0], env)
                    if ta != "nat": raise TranslateError("_prune_edge_tree: edge id of type " + ta)
                    out.append(f"{ind}let s := {{ s with cut := s.cut.erase {a} }}")
                    continue
                raise TranslateError(f"_prune_edge_tree: unsupported call statement `{ast.unparse(st)[:70]}`")
            # if c: <state updates>   (no else)
            if isinstance(st, ast.If):
                if st.orelse: raise TranslateError("_prune_edge_tree: `if` with an else branch")
                c, tc = cexpr(st.test, env)
                if tc != "bool": raise TranslateError(f"_prune_edge_tree: condition of type {tc}")
                saved = dict(env.names)
                inner = self.block(_strip(st.body), "")
                if set(env.names) != set(saved): raise TranslateError("_prune_edge_tree: a local is bound inside an `if`")
                out.append(f"{ind}let s := if ({c}) then ({'; '.join(l.strip() for l in inner)}; s) else s")
                continue
            # for v in <iterable>: body
            if isinstance(st, ast.For):
                if st.orelse or not isinstance(st.target, ast.Name): raise TranslateError("_prune_edge_tree: unsupported for loop header")
                it = st.iter
                if _path(it) == "self.input_mesh.id_vertices": src = "(idRange nV)"
                elif isinstance(it, ast.Subscript) and _path(it.value) == "self.cut_adj":
                    k, _ = cexpr(it.slice, env); src = f"(s.adj {k})"
                else: raise TranslateError(f"_prune_edge_tree: loop over `{ast.unparse(it)[:60]}` not recognised")
                self.nfor += 1
                name = {1: "pruneInitStep", 2: "pruneInner"}.get(self.nfor)
                if name is None: raise TranslateError("_prune_edge_tree: more than two for loops")
                free = [(k, v) for k, v in env.names.items() if env.types[k] == "nat" and k in _names_used(st)]
                x = env.bind(st.target.id)
                body = self.block(_strip(st.body), "  ")
                ps = "".join(f" ({v} : Nat)" for _, v in free)
                pa = "".join(f" {v}" for _, v in free)
                self.aux.append(f"/-- body of `for {x} in {src}` of `_prune_edge_tree` -/\n"
                                f"def {name} (E : List (Nat × Nat)) (sing : List Nat){ps} (s : St) ({x} : Nat) : St :=\n"
                                + "\n".join(body) + "\n  s\n")
                out.append(f"{ind}let s := {src}.foldl ({name} E sing{pa}) s")
                continue
            # while len(queue)>0: body
            if isinstance(st, ast.While):
                if st.orelse: raise TranslateError("_prune_edge_tree: while/else")
                self.nwhile += 1
                if self.nwhile > 1: raise TranslateError("_prune_edge_tree: more than one while loop")
                cond = _queue_nonempty(st.test, env)
                if any(env.types[k] == "nat" and k in _names_used(st) for k in env.names):
                    raise TranslateError("_prune_edge_tree: the while loop reads a local bound before it")
                body = self.block(_strip(st.body), "  ")
                self.aux.append("/-- `while len(queue)>0` of `_prune_edge_tree`: the condition -/\n"
                                f"def pruneCond (s : St) : Bool := {cond}\n\n"
                                "/-- its body -/\n"
                                "def pruneBody (E : List (Nat × Nat)) (sing : List Nat) (s : St) : St :=\n" + "\n".join(body) + "\n  s\n\n"
                                "/-- the loop, on a fuel argument -/\n"
                                "def pruneWhile (E : List (Nat × Nat)) (sing : List Nat) : Nat → St → St\n"
                                "  | 0, s => s\n"
                                "  | fuel + 1, s => if pruneCond s then pruneWhile E sing fuel (pruneBody E sing s) else s\n")
                out.append(f"{ind}let s := pruneWhile E sing (nV + s.cut.length + 1) s")
                continue
            raise TranslateError(f"_prune_edge_tree: unsupported statement `{ast.unparse(st)[:70]}`")
        return out


def _compile_prune(tree):
    fn, params, body = _method(tree, "_prune_edge_tree")
    if params: raise TranslateError(f"_prune_edge_tree: unexpected parameters {params}")
    pc = PruneCompiler()
    lines = pc.block(body, "  ")
    if pc.nfor != 2 or pc.nwhile != 1:
        raise TranslateError(f"_prune_edge_tree: expected the initialisation loop, one while loop and one inner loop (found {pc.nfor} for, {pc.nwhile} while)")
    # the inner loop is emitted while compiling the while body: order the auxiliary definitions by dependency
    if len(pc.env.reads) != 1:
        raise TranslateError(f"_prune_edge_tree: the singular vertices are tested against {sorted(pc.env.reads)} (expected exactly one of self.singularities / self.singu_set)")
    which = {"singularities": "p.1", "singu_set": "p.2"}[next(iter(pc.env.reads))]
    pc.aux.append("/-- the container `_prune_edge_tree` tests the singular vertices against, out of the pair (self.singularities, self.singu_set) that\n"
                  f"`__init__` builds: `self.{next(iter(pc.env.reads))}` -/\n"
                  f"def pruneSingOf (p : List Nat × List Nat) : List Nat := {which}\n")
    order = sorted(pc.aux, key=lambda t: 0 if "def pruneInitStep" in t else 1 if "def pruneInner" in t else 2)
    return "\n".join(order) + ("\n/-- `SingularityCutter._prune_edge_tree` -/\n"
                               "def pruneEdgeTree (nV : Nat) (E : List (Nat × Nat)) (sing : List Nat) (s : St) : St :=\n"
                               + "\n".join(lines) + "\n  s\n")


# ------------------------------------------------------------------------------------------------------------------
# _build_cut_edges_tree
# ------------------------------------------------------------------------------------------------------------------
def _compile_build_tree(tree):
    fn, params, body = _method(tree, "_build_cut_edges_tree")
    if len(params) != 1: raise TranslateError(f"_build_cut_edges_tree: expected one parameter, found {params}")
    ev = params[0]
    if len(body) != 3: raise TranslateError(f"_build_cut_edges_tree: expected 3 statements (cut_edges, cut_adj, loop), found {len(body)}")
    s0, s1, s2 = body
    # self.cut_edges = set(self.input_mesh.id_edges) - evisited
    ok = isinstance(s0, ast.Assign) and _path(s0.targets[0]) == "self.cut_edges" and isinstance(s0.value, ast.BinOp) and isinstance(s0.value.op, ast.Sub)
    if ok:
        l, r = s0.value.left, s0.value.right
        ok = isinstance(l, ast.Call) and getattr(l.func, "id", None) == "set" and len(l.args) == 1 and _path(l.args[0]) == "self.input_mesh.id_edges" \
            and isinstance(r, ast.Name) and r.id == ev
    if not ok: raise TranslateError(f"_build_cut_edges_tree: `{ast.unparse(s0)[:80]}` is not `self.cut_edges = set(self.input_mesh.id_edges) - {ev}`")
    # self.cut_adj = dict([(i,set()) for i in self.input_mesh.id_vertices])
    ok = isinstance(s1, ast.Assign) and _path(s1.targets[0]) == "self.cut_adj"
    if ok:
        v = s1.value
        comp = None
        if isinstance(v, ast.Call) and getattr(v.func, "id", None) == "dict" and len(v.args) == 1 and isinstance(v.args[0], (ast.ListComp, ast.GeneratorExp)):
            comp = v.args[0]; elt = comp.elt
            ok = isinstance(elt, ast.Tuple) and len(elt.elts) == 2
            key, val = (elt.elts if ok else (None, None))
        elif isinstance(v, ast.DictComp):
            comp = v; key, val = v.key, v.value
        else: ok = False
        if ok:
            g = comp.generators
            ok = len(g) == 1 and isinstance(g[0].target, ast.Name) and not g[0].ifs and _path(g[0].iter) == "self.input_mesh.id_vertices" \
                and isinstance(key, ast.Name) and key.id == g[0].target.id and isinstance(val, ast.Call) and getattr(val.func, "id", None) == "set" and not val.args
    if not ok: raise TranslateError(f"_build_cut_edges_tree: `{ast.unparse(s1)[:80]}` is not the dict of empty sets over id_vertices")
    # for e in self.cut_edges: a,b = edges[e]; cut_adj[a].add(b); cut_adj[b].add(a)
    if not (isinstance(s2, ast.For) and isinstance(s2.target, ast.Name) and _path(s2.iter) == "self.cut_edges" and not s2.orelse):
        raise TranslateError("_build_cut_edges_tree: the loop over self.cut_edges is not recognised")
    env = Env("_build_cut_edges_tree")
    x = env.bind(s2.target.id)
    lines = []
    for st in _strip(s2.body):
        if isinstance(st, ast.Assign) and len(st.targets) == 1 and isinstance(st.targets[0], ast.Tuple) and len(st.targets[0].elts) == 2 \
                and all(isinstance(t, ast.Name) for t in st.targets[0].elts):
            e, t = cexpr(st.value, env)
            if t != "pair": raise TranslateError(f"_build_cut_edges_tree: unpacking a {t}")
            for k, tname in enumerate(st.targets[0].elts):
                lines.append(f"  let {env.bind(tname.id)} := {e}.{k + 1}")
            continue
        if isinstance(st, ast.Assign) and len(st.targets) == 1 and isinstance(st.targets[0], ast.Name):
            e, t = cexpr(st.value, env)
            if t != "nat": raise TranslateError(f"_build_cut_edges_tree: local of type {t}")
            lines.append(f"  let {env.bind(st.targets[0].id)} := {e}")
            continue
        if isinstance(st, ast.Expr) and isinstance(st.value, ast.Call) and isinstance(st.value.func, ast.Attribute) and st.value.func.attr == "add" \
                and isinstance(st.value.func.value, ast.Subscript) and _path(st.value.func.value.value) == "self.cut_adj" and len(st.value.args) == 1:
            k, tk = cexpr(st.value.func.value.slice, env); a, ta = cexpr(st.value.args[0], env)
            if tk != "nat" or ta != "nat": raise TranslateError("_build_cut_edges_tree: key/element type")
            lines.append(f"  let adj := sadd adj {k} {a}")
            continue
        raise TranslateError(f"_build_cut_edges_tree: unsupported statement in the loop `{ast.unparse(st)[:70]}`")
    return (f"/-- body of `for {x} in self.cut_edges` of `_build_cut_edges_tree` -/\n"
            f"def buildAdjStep (E : List (Nat × Nat)) (adj : AdjMap) ({x} : Nat) : AdjMap :=\n" + "\n".join(lines) + "\n  adj\n\n"
            "/-- `SingularityCutter._build_cut_edges_tree` -/\n"
            "def buildCutEdgesTree (nE : Nat) (E : List (Nat × Nat)) (evisited : List Nat) : St :=\n"
            "  let cut := setDiff (idRange nE) evisited\n"
            "  let adj := emptyAdj\n"
            "  let adj := cut.foldl (buildAdjStep E) adj\n"
            "  { cut := cut, adj := adj, queue := [] }\n")


# ------------------------------------------------------------------------------------------------------------------
# run methods
# ------------------------------------------------------------------------------------------------------------------
def _self_call(n):
    if isinstance(n, ast.Call) and isinstance(n.func, ast.Attribute) and isinstance(n.func.value, ast.Name) and n.func.value.id == "self" and not n.keywords:
        return n.func.attr, n.args
    return None, None


def _compile_run_variant(tree, name, lean):
    fn, params, body = _method(tree, name)
    if params: raise TranslateError(f"{name}: unexpected parameters")
    env = Env(name)
    lines, stages = [], []
    for st in body:
        if isinstance(st, ast.Assign) and len(st.targets) == 1 and isinstance(st.targets[0], ast.Name):
            m, args = _self_call(st.value)
            if m is None: raise TranslateError(f"{name}: `{ast.unparse(st)[:70]}` is not a stage call")
            if not m.startswith("_build_singularity_spanning_tree") and not m.startswith("_build_dual_tree"):
                raise TranslateError(f"{name}: unexpected stage {m}")
            kind = "tree" if m.startswith("_build_singularity_spanning_tree") else "dual"
            a = []
            for g in args:
                if not isinstance(g, ast.Name): raise TranslateError(f"{name}: stage argument `{ast.unparse(g)}`")
                a.append(env.get(g.id)[0])
            if (kind == "tree" and a) or (kind == "dual" and len(a) != 1): raise TranslateError(f"{name}: arguments of {m}")
            stages.append((kind, m))
            x = env.bind(st.targets[0].id, "flags" if kind == "tree" else "natlist")
            lines.append(f"  let {x} := " + ("spanningTree" if kind == "tree" else f"dualTree {a[0]}"))
            if kind == "dual" and env.types[[k for k, v in env.names.items() if v == a[0]][0]] != "flags":
                raise TranslateError(f"{name}: the dual tree is not given the spanning tree's edge flags")
            continue
        if isinstance(st, ast.Expr):
            m, args = _self_call(st.value)
            if m == "_build_cut_edges_tree" and len(args) == 1 and isinstance(args[0], ast.Name):
                x, t = env.get(args[0].id)
                if t != "natlist": raise TranslateError(f"{name}: _build_cut_edges_tree is not given the dual tree's edge set")
                lines.append(f"  let s := buildCutEdgesTree nE E {x}"); stages.append(("cut", m)); continue
            if m == "_prune_edge_tree" and not args:
                if not any(k == "cut" for k, _ in stages): raise TranslateError(f"{name}: _prune_edge_tree before _build_cut_edges_tree")
                lines.append("  let s := pruneEdgeTree nV E sing s"); stages.append(("prune", m)); continue
        raise TranslateError(f"{name}: unsupported statement `{ast.unparse(st)[:70]}`")
    if [k for k, _ in stages] != ["tree", "dual", "cut", "prune"]:
        raise TranslateError(f"{name}: stage sequence {[m for _, m in stages]}")
    return (f"/-- `SingularityCutter.{name}`; the stages that are not modelled ({stages[0][1]}, {stages[1][1]}) are parameters -/\n"
            f"def {lean} {{α : Type}} (nV nE : Nat) (E : List (Nat × Nat)) (sing : List Nat) (spanningTree : α) (dualTree : α → List Nat) : St :=\n"
            + "\n".join(lines) + "\n  s\n\n"
            f"/-- the methods `{name}` calls, in order -/\n"
            f"def {lean}Stages : List String := [" + ", ".join(f'"{m}"' for _, m in stages) + "]\n")


def _compile_run(tree):
    fn, params, body = _method(tree, "run")
    if params: raise TranslateError("run: unexpected parameters")
    if len(body) != 1 or not isinstance(body[0], ast.If):
        raise TranslateError("run: expected the single `if self.has_features: .. else: ..` (after log calls)")
    st = body[0]
    neg = False
    test = st.test
    if isinstance(test, ast.UnaryOp) and isinstance(test.op, ast.Not): neg, test = True, test.operand
    if _path(test) != "self.has_features": raise TranslateError(f"run: condition `{ast.unparse(st.test)}`")
    def one(b):
        b = _strip(b)
        if len(b) != 1 or not isinstance(b[0], ast.Expr): raise TranslateError("run: branch is not a single call")
        m, args = _self_call(b[0].value)
        if m not in ("_run_with_features", "_run_no_features") or args: raise TranslateError(f"run: branch calls {m}")
        return {"_run_with_features": "runWithFeatures nV nE E sing treeF dualF", "_run_no_features": "runNoFeatures nV nE E sing treeN dualN"}[m]
    a, b = one(st.body), one(st.orelse)
    if neg: a, b = b, a
    return ("/-- `SingularityCutter.run` -/\n"
            "def run {α β : Type} (hasFeatures : Bool) (nV nE : Nat) (E : List (Nat × Nat)) (sing : List Nat)\n"
            "    (treeF : α) (dualF : α → List Nat) (treeN : β) (dualN : β → List Nat) : St :=\n"
            f"  if hasFeatures then {a} else {b}\n")


# ------------------------------------------------------------------------------------------------------------------
# _build_mesh_with_cuts: three loops
# ------------------------------------------------------------------------------------------------------------------
def _find_loops(body):
    return [s for s in body if isinstance(s, ast.For)]


def _compile_mesh_loops(tree):
    fn, params, body = _method(tree, "_build_mesh_with_cuts")
    if params: raise TranslateError("_build_mesh_with_cuts: unexpected parameters")
    loops = _find_loops(body)
    # ---- loop 1: corner numbering ------------------------------------------------------------------------------
    l1 = None
    for s in loops:
        it = s.iter
        if isinstance(it, ast.Call) and getattr(it.func, "id", None) == "enumerate" and len(it.args) == 1 and _path(it.args[0]) == "self.input_mesh.faces":
            l1 = s; break
    if l1 is None: raise TranslateError("_build_mesh_with_cuts: `for iF,F in enumerate(self.input_mesh.faces)` not found")
    i1 = body.index(l1)
    init = body[i1 - 1] if i1 > 0 else None
    if not (isinstance(init, ast.Assign) and isinstance(init.targets[0], ast.Name) and isinstance(init.value, ast.Constant) and init.value.value == 0):
        raise TranslateError("_build_mesh_with_cuts: the corner counter is not initialised to 0 right before the loop")
    kname = init.targets[0].id
    if not (isinstance(l1.target, ast.Tuple) and len(l1.target.elts) == 2 and all(isinstance(t, ast.Name) for t in l1.target.elts)):
        raise TranslateError("_build_mesh_with_cuts: corner loop target")
    fname_ = l1.target.elts[1].id
    env = Env("_build_mesh_with_cuts(corner loop)")
    env.names[kname] = "s.kF"; env.types[kname] = "nat"
    xF = env.bind(fname_, "natlist")
    lines = []
    inner_def = None
    for st in _strip(l1.body):
        if isinstance(st, ast.Assign) and len(st.targets) == 1 and isinstance(st.targets[0], ast.Name):
            e, t = cexpr(st.value, env)
            if t != "nat": raise TranslateError("corner loop: local of type " + t)
            lines.append(f"  let {env.bind(st.targets[0].id)} := {e}")
            continue
        if isinstance(st, ast.Expr) and isinstance(st.value, ast.Call) and _path(st.value.func) == "self._output_mesh.faces.append" and len(st.value.args) == 1:
            lc = st.value.args[0]
            if not (isinstance(lc, ast.ListComp) and len(lc.generators) == 1 and isinstance(lc.generators[0].target, ast.Name) and not lc.generators[0].ifs
                    and isinstance(lc.generators[0].iter, ast.Call) and getattr(lc.generators[0].iter.func, "id", None) == "range" and len(lc.generators[0].iter.args) == 1):
                raise TranslateError("corner loop: appended face is not `[.. for _i in range(..)]`")
            hi, th = cexpr(lc.generators[0].iter.args[0], env)
            saved = dict(env.names), dict(env.types), env.n
            xi = env.bind(lc.generators[0].target.id)
            elt, te = cexpr(lc.elt, env)
            env.names, env.types, env.n = saved
            if th != "nat" or te != "nat": raise TranslateError("corner loop: face comprehension types")
            lines.append(f"  let s := {{ s with faces := s.faces ++ [(List.range {hi}).map (fun {xi} => {elt})] }}")
            continue
        if isinstance(st, ast.For):
            it = st.iter
            if not (isinstance(it, ast.Call) and getattr(it.func, "id", None) == "enumerate" and len(it.args) == 1 and isinstance(it.args[0], ast.Name)
                    and it.args[0].id == fname_ and isinstance(st.target, ast.Tuple) and len(st.target.elts) == 2 and inner_def is None):
                raise TranslateError("corner loop: inner loop is not `for iv,v in enumerate(F)`")
            ienv = Env("_build_mesh_with_cuts(corner loop)")
            ienv.names[kname] = "s.kF"; ienv.types[kname] = "nat"
            xv = ienv.bind(st.target.elts[1].id); xiv = ienv.bind(st.target.elts[0].id)
            il = [f"  let {xv} := p.1", f"  let {xiv} := p.2"]
            posvar = {}
            for b in _strip(st.body):
                # pv = self.input_mesh.vertices[v]
                if isinstance(b, ast.Assign) and isinstance(b.targets[0], ast.Name) and isinstance(b.value, ast.Subscript) and _path(b.value.value) == "self.input_mesh.vertices":
                    k, _ = cexpr(b.value.slice, ienv); posvar[b.targets[0].id] = k; continue
                if isinstance(b, ast.Expr) and isinstance(b.value, ast.Call) and _path(b.value.func) == "self._output_mesh.vertices.append" and len(b.value.args) == 1:
                    a = b.value.args[0]
                    if isinstance(a, ast.Name) and a.id in posvar: k = posvar[a.id]
                    elif isinstance(a, ast.Subscript) and _path(a.value) == "self.input_mesh.vertices": k, _ = cexpr(a.slice, ienv)
                    else: raise TranslateError("corner loop: appended vertex is not a position of the input mesh")
                    il.append(f"  let s := {{ s with verts := s.verts ++ [{k}] }}"); continue
                if isinstance(b, ast.Expr) and isinstance(b.value, ast.Call) and isinstance(b.value.func, ast.Attribute) and b.value.func.attr == "add" \
                        and isinstance(b.value.func.value, ast.Subscript) and isinstance(b.value.func.value.value, ast.Name) and len(b.value.args) == 1:
                    k, _ = cexpr(b.value.func.value.slice, ienv); a, _ = cexpr(b.value.args[0], ienv)
                    il.append(f"  let s := {{ s with dup := s.dup ++ [({k}, {a})] }}"); continue
                raise TranslateError(f"corner loop: unsupported inner statement `{ast.unparse(b)[:70]}`")
            inner_def = ("/-- body of `for iv,v in enumerate(F)` (corner numbering of `_build_mesh_with_cuts`); `p = (v, iv)` -/\n"
                         "def cornerInner (s : CornerSt) (p : Nat × Nat) : CornerSt :=\n" + "\n".join(il) + "\n  s\n")
            lines.append(f"  let s := {xF}.zipIdx.foldl cornerInner s")
            continue
        if isinstance(st, ast.AugAssign) and isinstance(st.target, ast.Name) and st.target.id == kname and isinstance(st.op, ast.Add):
            e, t = cexpr(st.value, env)
            lines.append(f"  let s := {{ s with kF := s.kF + {e} }}")
            continue
        raise TranslateError(f"corner loop: unsupported statement `{ast.unparse(st)[:70]}`")
    if inner_def is None: raise TranslateError("corner loop: inner loop missing")
    corner = (inner_def + "\n/-- body of `for iF,F in enumerate(self.input_mesh.faces)` -/\n"
              f"def cornerStep (s : CornerSt) ({xF} : List Nat) : CornerSt :=\n" + "\n".join(lines) + "\n  s\n\n"
              "/-- the corner numbering loop of `_build_mesh_with_cuts` (`kF = 0` before it) -/\n"
              "def cornerLoop (F : List Face) : CornerSt := F.foldl cornerStep { faces := [], verts := [], dup := [], kF := 0 }\n")
    # ---- loop 2: unions across uncut interior edges ----------------------------------------------------------------
    l2 = next((s for s in loops if _path(s.iter) == "self.input_mesh.interior_edges"), None)
    if l2 is None or not isinstance(l2.target, ast.Name): raise TranslateError("_build_mesh_with_cuts: `for e in self.input_mesh.interior_edges` not found")
    env = Env("_build_mesh_with_cuts(union loop)")
    xe = env.bind(l2.target.id)
    pre, guard, inner = [], None, None
    for st in _strip(l2.body):
        if isinstance(st, ast.Assign) and isinstance(st.targets[0], ast.Tuple) and len(st.targets[0].elts) == 2 and guard is None:
            e, t = cexpr(st.value, env)
            if t != "pair": raise TranslateError("union loop: unpacking a " + t)
            for k, tn in enumerate(st.targets[0].elts): pre.append(f"    let {env.bind(tn.id)} := {e}.{k + 1}")
            continue
        if isinstance(st, ast.If) and guard is None and not st.orelse:
            g = st.test
            if not (isinstance(g, ast.Compare) and len(g.ops) == 1 and isinstance(g.ops[0], ast.NotIn) and _path(g.comparators[0]) == "self.cut_edges"
                    and isinstance(g.left, ast.Name)):
                raise TranslateError(f"union loop: guard `{ast.unparse(g)}` is not `e not in self.cut_edges`")
            guard = f"!(cut.contains {env.get(g.left.id)[0]})"; inner = _strip(st.body); continue
        raise TranslateError(f"union loop: unsupported statement `{ast.unparse(st)[:70]}`")
    if guard is None or len(inner) != 4: raise TranslateError("union loop: expected the guard with two direct_face lookups and two unions")
    dfs = []
    for st in inner[:2]:
        ok = isinstance(st, ast.Assign) and isinstance(st.targets[0], ast.Tuple) and len(st.targets[0].elts) == 3 and isinstance(st.value, ast.Call) \
            and _path(st.value.func) == "self.input_mesh.connectivity.direct_face" and len(st.value.args) == 3 \
            and isinstance(st.value.args[2], ast.Constant) and st.value.args[2].value is True and not st.value.keywords
        if not ok: raise TranslateError(f"union loop: `{ast.unparse(st)[:70]}` is not `F, i, j = direct_face(u, v, True)`")
        u, _ = cexpr(st.value.args[0], env); v, _ = cexpr(st.value.args[1], env)
        dfs.append((u, v, st.targets[0].elts))
    pats = []
    for (u, v, elts) in dfs:
        pats.append("some (" + ", ".join(env.bind(t.id) for t in elts) + ")")
    uns = []
    for st in inner[2:]:
        ok = isinstance(st, ast.Expr) and isinstance(st.value, ast.Call) and isinstance(st.value.func, ast.Attribute) and st.value.func.attr == "union" \
            and isinstance(st.value.func.value, ast.Name) and len(st.value.args) == 2
        if not ok: raise TranslateError(f"union loop: `{ast.unparse(st)[:70]}` is not a union call")
        for a in st.value.args:
            ok = isinstance(a, ast.Subscript) and isinstance(a.value, ast.Subscript) and _path(a.value.value) == "self._output_mesh.faces"
            if not ok: raise TranslateError("union loop: union argument is not `self._output_mesh.faces[F][i]`")
            f_, _ = cexpr(a.value.slice, env); i_, _ = cexpr(a.slice, env)
            uns.append(f"faceAt CF {f_} {i_}")
    union = ("/-- body of `for e in self.input_mesh.interior_edges` of `_build_mesh_with_cuts`; `none` = the TypeError of unpacking `None` -/\n"
             f"def unionStep (F : List Face) (E : List (Nat × Nat)) (cut : List Nat) (CF : List (List Nat)) (acc : Option UF.State) ({xe} : Nat) :\n"
             "    Option UF.State :=\n  match acc with\n  | none => none\n  | some uf =>\n" + "\n".join(pre) + "\n"
             f"    if {guard} then\n"
             f"      match directFaceOf F {dfs[0][0]} {dfs[0][1]}, directFaceOf F {dfs[1][0]} {dfs[1][1]} with\n"
             f"      | {pats[0]}, {pats[1]} =>\n"
             f"        match {uns[0]}, {uns[1]}, {uns[2]}, {uns[3]} with\n"
             "        | some c1, some c2, some c3, some c4 => some (UF.union (UF.union uf c1 c2) c3 c4)\n"
             "        | _, _, _, _ => none\n"
             "      | _, _ => none\n"
             "    else some uf\n\n"
             "/-- the union loop -/\n"
             "def unionLoop (F : List Face) (E : List (Nat × Nat)) (cut : List Nat) (CF : List (List Nat)) (interior : List Nat) (uf : UF.State) :\n"
             "    Option UF.State := interior.foldl (unionStep F E cut CF) (some uf)\n")
    # ---- loop 3: imap numbering ----------------------------------------------------------------------------------
    l3 = None
    for s in loops:
        if _path(s.iter) == "self._output_mesh.faces" and isinstance(s.target, ast.Name) and len(_strip(s.body)) == 1 and isinstance(_strip(s.body)[0], ast.For):
            l3 = s; break
    if l3 is None: raise TranslateError("_build_mesh_with_cuts: the imap numbering loop `for F in self._output_mesh.faces: for v in F:` not found")
    i3 = body.index(l3)
    inits = body[max(0, i3 - 2):i3]
    dname = cname = None
    for st in inits:
        if isinstance(st, ast.Assign) and isinstance(st.targets[0], ast.Name):
            if isinstance(st.value, ast.Call) and getattr(st.value.func, "id", None) == "dict" and not st.value.args: dname = st.targets[0].id
            if isinstance(st.value, ast.Dict) and not st.value.keys: dname = st.targets[0].id
            if isinstance(st.value, ast.Constant) and st.value.value == 0: cname = st.targets[0].id
    if dname is None or cname is None: raise TranslateError("_build_mesh_with_cuts: `imap = dict()` / `i = 0` not found right before the numbering loop")
    inner = _strip(l3.body)[0]
    if not (isinstance(inner.target, ast.Name) and isinstance(inner.iter, ast.Name) and inner.iter.id == l3.target.id):
        raise TranslateError("imap loop: inner loop header")
    env = Env("_build_mesh_with_cuts(imap loop)")
    env.names[cname] = "s.i"; env.types[cname] = "nat"
    xv = env.bind(inner.target.id)
    ib = _strip(inner.body)
    def is_in(test, neg):
        return isinstance(test, ast.Compare) and len(test.ops) == 1 and isinstance(test.ops[0], ast.NotIn if neg else ast.In) \
            and isinstance(test.left, ast.Name) and test.left.id == inner.target.id and isinstance(test.comparators[0], ast.Name) and test.comparators[0].id == dname
    if len(ib) == 3 and isinstance(ib[0], ast.If) and is_in(ib[0].test, False) and len(_strip(ib[0].body)) == 1 and isinstance(_strip(ib[0].body)[0], ast.Continue) and not ib[0].orelse:
        upd = ib[1:]
    elif len(ib) == 1 and isinstance(ib[0], ast.If) and is_in(ib[0].test, True) and not ib[0].orelse:
        upd = _strip(ib[0].body)
    else: raise TranslateError("imap loop: body is not `if v in imap: continue; imap[v]=i; i+=1`")
    ul = []
    for st in upd:
        if isinstance(st, ast.Assign) and isinstance(st.targets[0], ast.Subscript) and isinstance(st.targets[0].value, ast.Name) and st.targets[0].value.id == dname:
            k, _ = cexpr(st.targets[0].slice, env); v, _ = cexpr(st.value, env)
            ul.append(f"    let s := {{ s with imap := dput s.imap {k} {v} }}"); continue
        if isinstance(st, ast.AugAssign) and isinstance(st.target, ast.Name) and st.target.id == cname and isinstance(st.op, ast.Add):
            e, _ = cexpr(st.value, env); ul.append(f"    let s := {{ s with i := s.i + {e} }}"); continue
        raise TranslateError(f"imap loop: unsupported statement `{ast.unparse(st)[:70]}`")
    imap = ("/-- body of `for v in F` of the numbering loop of `_build_mesh_with_cuts` -/\n"
            f"def imapInner (s : ImapSt) ({xv} : Nat) : ImapSt :=\n  if dhas s.imap {xv} then s else\n" + "\n".join(ul) + "\n    s\n\n"
            "/-- `imap = dict(); i = 0; for F in self._output_mesh.faces: for v in F: ..` -/\n"
            "def imapLoop (faces : List (List Nat)) : ImapSt := faces.foldl (fun s f => f.foldl imapInner s) { imap := [], i := 0 }\n")
    # ---- round 5: find loop, map loop, order_verts ---------------------------------------------------------------
    def face_rewrite_loop(lp):
        """`for i,F in enumerate(self._output_mesh.faces): self._output_mesh.faces[i] = [<elt> for v in F]` -> (elt node, var)"""
        it = lp.iter
        ok = isinstance(it, ast.Call) and getattr(it.func, "id", None) == "enumerate" and len(it.args) == 1 and _path(it.args[0]) == "self._output_mesh.faces" \
            and isinstance(lp.target, ast.Tuple) and len(lp.target.elts) == 2 and all(isinstance(t, ast.Name) for t in lp.target.elts)
        b = _strip(lp.body)
        if not (ok and len(b) == 1 and isinstance(b[0], ast.Assign)): return None
        tg, v = b[0].targets[0], b[0].value
        ok = isinstance(tg, ast.Subscript) and _path(tg.value) == "self._output_mesh.faces" and isinstance(tg.slice, ast.Name) and tg.slice.id == lp.target.elts[0].id \
            and isinstance(v, ast.ListComp) and len(v.generators) == 1 and not v.generators[0].ifs and isinstance(v.generators[0].iter, ast.Name) \
            and v.generators[0].iter.id == lp.target.elts[1].id and isinstance(v.generators[0].target, ast.Name)
        return (v.elt, v.generators[0].target.id) if ok else None
    fl = ml = None
    for lp in loops:
        r = face_rewrite_loop(lp)
        if r is None: continue
        elt, var = r
        if isinstance(elt, ast.Call) and isinstance(elt.func, ast.Attribute) and elt.func.attr == "find" and isinstance(elt.func.value, ast.Name) \
                and [getattr(a, "id", None) for a in elt.args] == [var]:
            if fl is not None: raise TranslateError("_build_mesh_with_cuts: two find loops")
            fl = lp
        elif isinstance(elt, ast.Subscript) and isinstance(elt.value, ast.Name) and elt.value.id == dname and isinstance(elt.slice, ast.Name) and elt.slice.id == var:
            if ml is not None: raise TranslateError("_build_mesh_with_cuts: two renumbering loops")
            ml = lp
        else: raise TranslateError(f"_build_mesh_with_cuts: face rewrite `{ast.unparse(elt)[:50]}` not recognised")
    if fl is None or ml is None: raise TranslateError("_build_mesh_with_cuts: the find loop / the renumbering loop over self._output_mesh.faces not found")
    if not (body.index(l2) < body.index(fl) < body.index(l3) < body.index(ml)):
        raise TranslateError("_build_mesh_with_cuts: order of the stages (unions, find, imap, renumbering) changed")
    # order_verts
    ol = None
    for lp in loops:
        it = lp.iter
        if isinstance(it, ast.Call) and getattr(it.func, "id", None) == "range" and len(it.args) == 1 and isinstance(it.args[0], ast.Call) \
                and getattr(it.args[0].func, "id", None) == "len" and _path(it.args[0].args[0]) == "self._output_mesh.vertices" and isinstance(lp.target, ast.Name):
            ol = lp
    if ol is None: raise TranslateError("_build_mesh_with_cuts: `for u in range(len(self._output_mesh.vertices))` not found")
    io = body.index(ol)
    oinit = body[io - 1]
    ok = isinstance(oinit, ast.Assign) and isinstance(oinit.targets[0], ast.Name) and isinstance(oinit.value, ast.BinOp) and isinstance(oinit.value.op, ast.Mult)
    if ok:
        a, b2 = oinit.value.left, oinit.value.right
        if isinstance(b2, ast.List): a, b2 = b2, a
        ok = isinstance(a, ast.List) and len(a.elts) == 1 and getattr(a.elts[0], "value", 0) is None and isinstance(b2, ast.Call) \
            and getattr(b2.func, "id", None) == "len" and isinstance(b2.args[0], ast.Name) and b2.args[0].id == dname
    if not ok: raise TranslateError("_build_mesh_with_cuts: `order_verts = [None]*len(imap)` not found right before its loop")
    oname = oinit.targets[0].id
    uvar = ol.target.id
    ob = _strip(ol.body)
    def member(test, neg):
        return isinstance(test, ast.Compare) and len(test.ops) == 1 and isinstance(test.ops[0], ast.NotIn if neg else ast.In) \
            and isinstance(test.left, ast.Name) and test.left.id == uvar and isinstance(test.comparators[0], ast.Name) and test.comparators[0].id == dname
    if len(ob) == 2 and isinstance(ob[0], ast.If) and member(ob[0].test, True) and len(_strip(ob[0].body)) == 1 and isinstance(_strip(ob[0].body)[0], ast.Continue) and not ob[0].orelse:
        wr = ob[1]
    elif len(ob) == 1 and isinstance(ob[0], ast.If) and member(ob[0].test, False) and not ob[0].orelse and len(_strip(ob[0].body)) == 1:
        wr = _strip(ob[0].body)[0]
    else: raise TranslateError("_build_mesh_with_cuts: body of the order_verts loop is not `if u not in imap: continue; order_verts[imap[u]] = vertices[u]`")
    ok = isinstance(wr, ast.Assign) and isinstance(wr.targets[0], ast.Subscript) and isinstance(wr.targets[0].value, ast.Name) and wr.targets[0].value.id == oname \
        and isinstance(wr.targets[0].slice, ast.Subscript) and isinstance(wr.targets[0].slice.value, ast.Name) and wr.targets[0].slice.value.id == dname \
        and isinstance(wr.targets[0].slice.slice, ast.Name) and wr.targets[0].slice.slice.id == uvar \
        and isinstance(wr.value, ast.Subscript) and _path(wr.value.value) == "self._output_mesh.vertices" and isinstance(wr.value.slice, ast.Name) and wr.value.slice.id == uvar
    if not ok: raise TranslateError(f"_build_mesh_with_cuts: `{ast.unparse(wr)[:70]}` is not `order_verts[imap[u]] = self._output_mesh.vertices[u]`")
    after = body[io + 1:io + 3]
    ok = len(after) == 2 and isinstance(after[0], ast.Expr) and isinstance(after[0].value, ast.Call) and _path(after[0].value.func) == "self._output_mesh.vertices.clear" \
        and isinstance(after[1], ast.AugAssign) and _path(after[1].target) == "self._output_mesh.vertices" and isinstance(after[1].op, ast.Add) \
        and isinstance(after[1].value, ast.Name) and after[1].value.id == oname
    if not ok: raise TranslateError("_build_mesh_with_cuts: the vertices are not replaced by order_verts (`clear()` then `+= order_verts`) right after the loop")
    stages = ("/-- body of `for i,F in enumerate(faces): faces[i] = [uf.find(v) for v in F]`; `none` = the ValueError of `find` -/\n"
              "def findStep (acc : Option (UF.State × List (List Nat))) (x1 : List Nat) : Option (UF.State × List (List Nat)) :=\n"
              "  match acc with\n  | none => none\n  | some (uf, out) =>\n    match findAll uf x1 with\n    | none => none\n    | some (uf, r) => some (uf, out ++ [r])\n\n"
              "def findLoop (uf : UF.State) (faces : List (List Nat)) : Option (UF.State × List (List Nat)) := faces.foldl findStep (some (uf, []))\n\n"
              "/-- body of `for iF,F in enumerate(faces): faces[iF] = [imap[v] for v in F]`; `none` = KeyError -/\n"
              "def mapStep (imap : List (Nat × Nat)) (acc : Option (List (List Nat))) (x1 : List Nat) : Option (List (List Nat)) :=\n"
              "  match acc with\n  | none => none\n  | some out =>\n    match mapFace imap x1 with\n    | none => none\n    | some r => some (out ++ [r])\n\n"
              "def mapLoop (imap : List (Nat × Nat)) (faces : List (List Nat)) : Option (List (List Nat)) := faces.foldl (mapStep imap) (some [])\n\n"
              "/-- body of `for u in range(len(vertices))`: `if u not in imap: continue; order_verts[imap[u]] = vertices[u]` -/\n"
              "def orderStep (imap : List (Nat × Nat)) (verts : List Nat) (ov : List (Option Nat)) (x1 : Nat) : List (Option Nat) :=\n"
              "  if !(dhas imap x1) then ov else ov.set (dget imap x1) (some (verts.getD x1 0))\n\n"
              "/-- `order_verts = [None]*len(imap)` and the loop; the result replaces the vertex list -/\n"
              "def orderLoop (imap : List (Nat × Nat)) (verts : List Nat) : List (Option Nat) :=\n"
              "  (List.range verts.length).foldl (orderStep imap verts) (List.replicate imap.length none)\n")
    # ---- round 6: duplicate_vertices / ref_vertex bookkeeping ------------------------------------------------------
    dupname = None
    for st in body:
        if isinstance(st, ast.Assign) and isinstance(st.targets[0], ast.Name) and isinstance(st.value, ast.Call) and getattr(st.value.func, "id", None) == "dict" \
                and len(st.value.args) == 1 and isinstance(st.value.args[0], (ast.ListComp, ast.GeneratorExp)):
            c = st.value.args[0]
            if isinstance(c.elt, ast.Tuple) and len(c.elt.elts) == 2 and isinstance(c.elt.elts[1], ast.Call) and getattr(c.elt.elts[1].func, "id", None) == "set" \
                    and not c.elt.elts[1].args and _path(c.generators[0].iter) == "self.input_mesh.id_vertices":
                dupname = st.targets[0].id
    if dupname is None: raise TranslateError("_build_mesh_with_cuts: `duplicate_vertices = dict([(v, set()) for v in id_vertices])` not found")
    dl = [lp for lp in loops if isinstance(lp.iter, ast.Name) and lp.iter.id == dupname and isinstance(lp.target, ast.Name)]
    if len(dl) != 2: raise TranslateError(f"_build_mesh_with_cuts: expected two loops over {dupname} (root renumbering, ref_vertex), found {len(dl)}")
    d1, d2 = dl
    if not (body.index(ml) < body.index(d1) < body.index(d2)): raise TranslateError("_build_mesh_with_cuts: order of the bookkeeping loops")
    b1 = _strip(d1.body)
    ok = len(b1) == 1 and isinstance(b1[0], ast.Assign) and isinstance(b1[0].targets[0], ast.Subscript) and isinstance(b1[0].targets[0].value, ast.Name) \
        and b1[0].targets[0].value.id == dupname and isinstance(b1[0].targets[0].slice, ast.Name) and b1[0].targets[0].slice.id == d1.target.id \
        and isinstance(b1[0].value, ast.SetComp) and len(b1[0].value.generators) == 1 and not b1[0].value.generators[0].ifs
    if ok:
        sc = b1[0].value; g = sc.generators[0]
        ok = isinstance(g.target, ast.Name) and isinstance(g.iter, ast.Subscript) and isinstance(g.iter.value, ast.Name) and g.iter.value.id == dupname \
            and isinstance(g.iter.slice, ast.Name) and g.iter.slice.id == d1.target.id \
            and isinstance(sc.elt, ast.Subscript) and isinstance(sc.elt.value, ast.Name) and sc.elt.value.id == dname and isinstance(sc.elt.slice, ast.Call) \
            and isinstance(sc.elt.slice.func, ast.Attribute) and sc.elt.slice.func.attr == "find" and [getattr(a, "id", None) for a in sc.elt.slice.args] == [g.target.id]
    if not ok: raise TranslateError("_build_mesh_with_cuts: the first bookkeeping loop is not `dup[v] = {imap[uf.find(u)] for u in dup[v]}`")
    i2 = body.index(d2)
    rinit = body[i2 - 1]
    ok = isinstance(rinit, ast.Assign) and _path(rinit.targets[0]) == "self.ref_vertex" and ((isinstance(rinit.value, ast.Call) and getattr(rinit.value.func, "id", None) == "dict"
         and not rinit.value.args) or (isinstance(rinit.value, ast.Dict) and not rinit.value.keys))
    if not ok: raise TranslateError("_build_mesh_with_cuts: `self.ref_vertex = dict()` not found right before its loop")
    b2 = _strip(d2.body)
    ok = len(b2) == 1 and isinstance(b2[0], ast.For) and isinstance(b2[0].target, ast.Name) and isinstance(b2[0].iter, ast.Subscript) \
        and isinstance(b2[0].iter.value, ast.Name) and b2[0].iter.value.id == dupname and isinstance(b2[0].iter.slice, ast.Name) and b2[0].iter.slice.id == d2.target.id
    if ok:
        w = _strip(b2[0].body)
        ok = len(w) == 1 and isinstance(w[0], ast.Assign) and isinstance(w[0].targets[0], ast.Subscript) and _path(w[0].targets[0].value) == "self.ref_vertex" \
            and isinstance(w[0].targets[0].slice, ast.Name) and w[0].targets[0].slice.id == b2[0].target.id and isinstance(w[0].value, ast.Name) and w[0].value.id == d2.target.id
    if not ok: raise TranslateError("_build_mesh_with_cuts: the ref_vertex loop is not `for v in dup: for u in dup[v]: self.ref_vertex[u] = v`")
    book = ("/-- body of `for v in duplicate_vertices: duplicate_vertices[v] = {imap[uf.find(u)] for u in duplicate_vertices[v]}`\n"
            "(`dup x1` = the corners added for vertex `x1` by the corner numbering loop; `none` = ValueError / KeyError) -/\n"
            "def dupStep (imap : List (Nat × Nat)) (dup : Nat → List Nat) (acc : Option (UF.State × List (Nat × List Nat))) (x1 : Nat) :\n"
            "    Option (UF.State × List (Nat × List Nat)) :=\n"
            "  match acc with\n  | none => none\n  | some (uf, out) =>\n    match findAll uf (dup x1) with\n    | none => none\n    | some (uf, rs) =>\n"
            "      match mapFace imap rs with\n      | none => none\n      | some ks => some (uf, out ++ [(x1, ks)])\n\n"
            "def dupLoop (uf : UF.State) (imap : List (Nat × Nat)) (dup : Nat → List Nat) (nV : Nat) : Option (UF.State × List (Nat × List Nat)) :=\n"
            "  (idRange nV).foldl (dupStep imap dup) (some (uf, []))\n\n"
            "/-- `self.ref_vertex = dict(); for v in duplicate_vertices: for u in duplicate_vertices[v]: self.ref_vertex[u] = v`: the writes `(key, value)` in order -/\n"
            "def refLoop (dup2 : List (Nat × List Nat)) : List (Nat × Nat) :=\n"
            "  dup2.foldl (fun ws p => p.2.foldl (fun ws x2 => ws ++ [(x2, p.1)]) ws) []\n")
    return corner + "\n" + union + "\n" + imap + "\n" + stages + "\n" + book


# ------------------------------------------------------------------------------------------------------------------
# _build_dual_tree_no_features  (round 5)  ->  Generated/C16Dual.lean
# ------------------------------------------------------------------------------------------------------------------
DUAL_PARAMS = ("(E : List (Nat × Nat)) (forbidden : Nat → Bool) (opp : Nat → Nat → Nat → Option Nat) (fd : Nat → Nat → Rat)")


class DualCompiler:
    """statements of `_build_dual_tree_no_features` over the record `s : DSt` (visited, path, dist, queue)"""

    def __init__(self, roles, fparam, fdname):
        self.roles = roles            # python local -> "visited" | "path" | "dist" | "queue"
        self.fparam = fparam          # name of the `forbidden_edges` parameter
        self.fdname = fdname          # name of the nested distance function
        self.env = Env("_build_dual_tree_no_features")
        self.inner = None

    def ex(self, n):
        """-> (lean, type) with types nat | rat | optrat | optnat | bool | pair"""
        f = "_build_dual_tree_no_features"
        if isinstance(n, ast.Constant):
            if isinstance(n.value, bool): return ("true" if n.value else "false"), "bool"
            if isinstance(n.value, int) and n.value >= 0: return str(n.value), "nat"
            raise TranslateError(f"{f}: constant {n.value!r}")
        if isinstance(n, ast.Name): return self.env.get(n.id)
        if isinstance(n, ast.Subscript):
            if isinstance(n.value, ast.Name) and n.value.id in self.roles:
                k, tk = self.ex(n.slice)
                if tk != "nat": raise TranslateError(f"{f}: index of type {tk}")
                r = self.roles[n.value.id]
                if r == "queue": raise TranslateError(f"{f}: subscript of the queue")
                return f"s.{r} {k}", {"visited": "bool", "path": "optnat", "dist": "optrat"}[r]
            if isinstance(n.value, ast.Name) and n.value.id == self.fparam:
                k, _ = self.ex(n.slice); return f"forbidden {k}", "bool"
            if _path(n.value) == "self.input_mesh.edges":
                k, _ = self.ex(n.slice); return f"(edgeEnds E {k})", "pair"
            raise TranslateError(f"{f}: subscript `{ast.unparse(n)[:50]}`")
        if isinstance(n, ast.Call) and not n.keywords:
            if isinstance(n.func, ast.Name) and n.func.id == self.fdname and len(n.args) == 2:
                a, _ = self.ex(n.args[0]); b, _ = self.ex(n.args[1]); return f"fd {a} {b}", "rat"
            if _path(n.func) == "self.input_mesh.connectivity.opposite_face" and len(n.args) == 3:
                a = [self.ex(x)[0] for x in n.args]; return f"opp {a[0]} {a[1]} {a[2]}", "optnat"
            raise TranslateError(f"{f}: call `{ast.unparse(n)[:50]}`")
        if isinstance(n, ast.BinOp) and isinstance(n.op, ast.Add):
            (a, ta), (b, tb) = self.ex(n.left), self.ex(n.right)
            if ta == "optrat" and tb == "rat": return f"addW ({a}) {b}", "optrat"
            if ta == "rat" and tb == "optrat": return f"addW ({b}) {a}", "optrat"
            raise TranslateError(f"{f}: `+` on {ta},{tb}")
        if isinstance(n, ast.UnaryOp) and isinstance(n.op, ast.Not):
            a, ta = self.ex(n.operand)
            if ta != "bool": raise TranslateError(f"{f}: not of {ta}")
            return f"!({a})", "bool"
        if isinstance(n, ast.Compare) and len(n.ops) == 1 and isinstance(n.ops[0], ast.Lt):      # `a > b` was normalised to `b < a`
            (a, ta), (b, tb) = self.ex(n.left), self.ex(n.comparators[0])
            if ta == tb == "optrat": return f"gt ({b}) ({a})", "bool"
            raise TranslateError(f"{f}: comparison of {ta},{tb}")
        raise TranslateError(f"{f}: expression `{ast.unparse(n)[:60]}`")

    def block(self, stmts, ind):
        """-> Lean text of an expression of type DSt (the current record is `s`)"""
        f = "_build_dual_tree_no_features"
        if not stmts: return f"{ind}s"
        st, rest = stmts[0], stmts[1:]
        # if c: continue
        if isinstance(st, ast.If) and not st.orelse and len(_strip(st.body)) == 1 and isinstance(_strip(st.body)[0], ast.Continue):
            c, tc = self.ex(st.test)
            if tc != "bool": raise TranslateError(f"{f}: guard of type {tc}")
            return f"{ind}if {c} then s else\n" + self.block(rest, ind)
        # a,b = edges[e]
        if isinstance(st, ast.Assign) and isinstance(st.targets[0], ast.Tuple) and len(st.targets[0].elts) == 2:
            e, t = self.ex(st.value)
            if t != "pair": raise TranslateError(f"{f}: unpacking a {t}")
            out = ""
            for k, tn in enumerate(st.targets[0].elts): out += f"{ind}let {self.env.bind(tn.id)} := {e}.{k + 1}\n"
            return out + self.block(rest, ind)
        # x = opposite_face(..) ; if x is not None: B      (nothing after)
        if isinstance(st, ast.Assign) and isinstance(st.targets[0], ast.Name) and st.targets[0].id not in self.roles:
            e, t = self.ex(st.value)
            if t == "optnat":
                ok = len(rest) == 1 and isinstance(rest[0], ast.If) and not rest[0].orelse and isinstance(rest[0].test, ast.Compare) \
                    and isinstance(rest[0].test.ops[0], ast.IsNot) and isinstance(rest[0].test.left, ast.Name) and rest[0].test.left.id == st.targets[0].id \
                    and isinstance(rest[0].test.comparators[0], ast.Constant) and rest[0].test.comparators[0].value is None
                if not ok: raise TranslateError(f"{f}: `{st.targets[0].id} = opposite_face(..)` is not followed by the single `if {st.targets[0].id} is not None:`")
                x = self.env.bind(st.targets[0].id)
                return f"{ind}match {e} with\n{ind}| none => s\n{ind}| some {x} =>\n" + self.block(_strip(rest[0].body), ind)
            if t not in ("nat", "rat"): raise TranslateError(f"{f}: local of type {t}")
            x = self.env.bind(st.targets[0].id, t)
            return f"{ind}let {x} := {e}\n" + self.block(rest, ind)
        # container[k] = v
        if isinstance(st, ast.Assign) and isinstance(st.targets[0], ast.Subscript) and isinstance(st.targets[0].value, ast.Name) \
                and st.targets[0].value.id in self.roles:
            r = self.roles[st.targets[0].value.id]
            k, _ = self.ex(st.targets[0].slice)
            v, tv = self.ex(st.value)
            if r == "visited" and tv == "bool": val = v
            elif r == "dist" and tv == "optrat": val = f"({v})"
            elif r == "dist" and tv == "nat": val = f"(some {v})"
            elif r == "path" and tv == "nat": val = f"(some {v})"
            else: raise TranslateError(f"{f}: `{ast.unparse(st)[:50]}`: a {tv} is stored in {r}")
            return f"{ind}let s := {{ s with {r} := upd s.{r} {k} {val} }}\n" + self.block(rest, ind)
        # queue.push(x, p)
        if isinstance(st, ast.Expr) and isinstance(st.value, ast.Call) and isinstance(st.value.func, ast.Attribute) and isinstance(st.value.func.value, ast.Name) \
                and self.roles.get(st.value.func.value.id) == "queue":
            if st.value.func.attr != "push" or len(st.value.args) != 2: raise TranslateError(f"{f}: queue method `{st.value.func.attr}`")
            x, tx = self.ex(st.value.args[0]); p, tp = self.ex(st.value.args[1])
            if tx != "nat": raise TranslateError(f"{f}: queue item of type {tx}")
            pr = f"(prioOf ({p}))" if tp == "optrat" else (f"(.fin {p})" if tp == "nat" else None)
            if pr is None: raise TranslateError(f"{f}: priority of type {tp}")
            return f"{ind}let s := {{ s with queue := push s.queue {x} {pr} }}\n" + self.block(rest, ind)
        # if c: <updates>
        if isinstance(st, ast.If) and not st.orelse:
            c, tc = self.ex(st.test)
            if tc != "bool": raise TranslateError(f"{f}: condition of type {tc}")
            n0 = self.env.n
            inner = self.block(_strip(st.body), "")
            if self.env.n != n0 or "match" in inner or "if " in inner: raise TranslateError(f"{f}: nested control flow inside an `if`")
            one = "; ".join(l.strip() for l in inner.split("\n"))
            return f"{ind}let s := if {c} then ({one}) else s\n" + self.block(rest, ind)
        # for e in face_to_edges(iF)
        if isinstance(st, ast.For) and not st.orelse and isinstance(st.target, ast.Name) and isinstance(st.iter, ast.Call) \
                and _path(st.iter.func) == "self.input_mesh.connectivity.face_to_edges" and len(st.iter.args) == 1 and isinstance(st.iter.args[0], ast.Name):
            if self.inner is not None: raise TranslateError(f"{f}: two loops over face_to_edges")
            face, _ = self.env.get(st.iter.args[0].id)
            x = self.env.bind(st.target.id)
            body = self.block(_strip(st.body), "  ")
            self.inner = (f"/-- body of `for {x} in face_to_edges({face})` of `_build_dual_tree_no_features` -/\n"
                          f"def dualInner {DUAL_PARAMS}\n    ({face} : Nat) (s : DSt) ({x} : Nat) : DSt :=\n{body}\n")
            return f"{ind}let s := (f2e {face}).foldl (dualInner E forbidden opp fd {face}) s\n" + self.block(rest, ind)
        raise TranslateError(f"{f}: unsupported statement `{ast.unparse(st)[:70]}`")


def _compile_dual(tree):
    fn, params, body = _method(tree, "_build_dual_tree_no_features")
    if len(params) != 1: raise TranslateError(f"_build_dual_tree_no_features: parameters {params}")
    roles, fdname, loop, ret = {}, None, None, None
    init_lines = []
    pre = []
    for st in body:
        if isinstance(st, ast.While): loop = st; continue
        if isinstance(st, ast.Return): ret = st; continue
        if loop is not None: raise TranslateError("_build_dual_tree_no_features: statement between the loop and the return")
        pre.append(st)
    if loop is None or ret is None: raise TranslateError("_build_dual_tree_no_features: loop / return not found")
    dc = None
    for st in pre:
        if isinstance(st, ast.FunctionDef):
            b = _strip(st.body)
            ok = len(st.args.args) == 2 and len(b) == 1 and isinstance(b[0], ast.Return) and isinstance(b[0].value, ast.Call) \
                and getattr(b[0].value.func, "id", None) == "distance" and len(b[0].value.args) == 2 \
                and all(isinstance(a, ast.Subscript) and isinstance(a.value, ast.Name) and isinstance(a.slice, ast.Name) for a in b[0].value.args) \
                and [a.slice.id for a in b[0].value.args] == [x.arg for x in st.args.args] and len({a.value.id for a in b[0].value.args}) == 1
            if not ok: raise TranslateError("_build_dual_tree_no_features: the nested distance function is not `distance(barycenters[f1], barycenters[f2])`")
            bary = b[0].value.args[0].value.id
            if not any(isinstance(p, ast.Assign) and isinstance(p.targets[0], ast.Name) and p.targets[0].id == bary and isinstance(p.value, ast.Call)
                       and _path(p.value.func) == "attributes.face_barycenter" for p in pre):
                raise TranslateError("_build_dual_tree_no_features: the barycenters are not `attributes.face_barycenter(..)`")
            fdname = st.name; continue
        if isinstance(st, ast.Assign) and isinstance(st.targets[0], ast.Name):
            v, name = st.value, st.targets[0].id
            if isinstance(v, ast.Call) and getattr(v.func, "id", None) == "ArrayAttribute" and len(v.args) == 2 and getattr(v.args[0], "id", None) == "bool":
                roles[name] = "visited"; continue
            if isinstance(v, ast.Call) and getattr(v.func, "id", None) == "PriorityQueue" and not v.args:
                roles[name] = "queue"; continue
            if isinstance(v, ast.Call) and _path(v.func) == "attributes.face_barycenter": continue
            if isinstance(v, ast.ListComp) and len(v.generators) == 1 and _path(v.generators[0].iter) == "self.input_mesh.id_faces" and not v.generators[0].ifs:
                if isinstance(v.elt, ast.Constant) and v.elt.value is None: roles[name] = "path"; continue
                if isinstance(v.elt, ast.Call) and getattr(v.elt.func, "id", None) == "float" and len(v.elt.args) == 1 and getattr(v.elt.args[0], "value", None) == "inf":
                    roles[name] = "dist"; continue
            raise TranslateError(f"_build_dual_tree_no_features: initialisation `{ast.unparse(st)[:60]}`")
        if dc is None:
            if sorted(roles.values()) != ["dist", "path", "queue", "visited"]:
                raise TranslateError(f"_build_dual_tree_no_features: containers found before the first update: {sorted(roles.values())}")
            dc = DualCompiler(roles, params[0], "__none__")
        init_lines.append(st)
    if dc is None or fdname is None: raise TranslateError("_build_dual_tree_no_features: initialisations / distance function missing")
    init = dc.block(init_lines, "  ")
    dc.fdname = fdname
    # while not queue.empty(): x = queue.get().x ; ...
    t = loop.test
    ok = isinstance(t, ast.UnaryOp) and isinstance(t.op, ast.Not) and isinstance(t.operand, ast.Call) and isinstance(t.operand.func, ast.Attribute) \
        and t.operand.func.attr == "empty" and isinstance(t.operand.func.value, ast.Name) and roles.get(t.operand.func.value.id) == "queue"
    if not ok: raise TranslateError(f"_build_dual_tree_no_features: loop condition `{ast.unparse(t)}` is not `not queue.empty()`")
    wb = _strip(loop.body)
    g = wb[0] if wb else None
    ok = isinstance(g, ast.Assign) and isinstance(g.targets[0], ast.Name) and isinstance(g.value, ast.Attribute) and g.value.attr == "x" \
        and isinstance(g.value.value, ast.Call) and isinstance(g.value.value.func, ast.Attribute) and g.value.value.func.attr == "get" \
        and isinstance(g.value.value.func.value, ast.Name) and roles.get(g.value.value.func.value.id) == "queue"
    if not ok: raise TranslateError("_build_dual_tree_no_features: the loop does not start with `iF = queue.get().x`")
    x1 = dc.env.bind(g.targets[0].id)
    wbody = dc.block(wb[1:], "  ")
    if dc.inner is None: raise TranslateError("_build_dual_tree_no_features: the loop over face_to_edges is missing")
    # return {path[f] for f in id_faces if path[f] is not None}
    v = ret.value
    ok = isinstance(v, ast.SetComp) and len(v.generators) == 1 and _path(v.generators[0].iter) == "self.input_mesh.id_faces" and len(v.generators[0].ifs) == 1
    if ok:
        fv = v.generators[0].target.id
        pf = lambda n: isinstance(n, ast.Subscript) and isinstance(n.value, ast.Name) and roles.get(n.value.id) == "path" and isinstance(n.slice, ast.Name) and n.slice.id == fv
        c = v.generators[0].ifs[0]
        ok = pf(v.elt) and isinstance(c, ast.Compare) and isinstance(c.ops[0], ast.IsNot) and pf(c.left) and getattr(c.comparators[0], "value", 0) is None
    if not ok: raise TranslateError("_build_dual_tree_no_features: the returned set is not `{path[f] for f in id_faces if path[f] is not None}`")
    P = "(pop : Pop) (E : List (Nat × Nat)) (f2e : Nat → List Nat) (forbidden : Nat → Bool)\n    (opp : Nat → Nat → Nat → Option Nat) (fd : Nat → Nat → Rat)"
    return (dc.inner + "\n"
            "/-- one iteration of `while not queue.empty()`; `none` when the queue is empty (the loop exits) -/\n"
            f"def dualBody {P} (s : DSt) : Option DSt :=\n"
            "  match pop s.queue with\n  | none => none\n  | some (it, q) =>\n  let s := { s with queue := q }\n"
            f"  let {x1} := it.1\n  some (\n{wbody})\n\n"
            "/-- the loop, on a fuel argument -/\n"
            f"def dualWhile {P} : Nat → DSt → DSt\n"
            "  | 0, s => s\n"
            "  | fuel + 1, s => match dualBody pop E f2e forbidden opp fd s with\n"
            "    | none => s\n"
            "    | some s' => dualWhile pop E f2e forbidden opp fd fuel s'\n\n"
            "/-- the initialisations before the loop -/\n"
            "def dualInit : DSt :=\n"
            "  let s : DSt := { visited := fun _ => false, path := fun _ => none, dist := fun _ => none, queue := [] }\n"
            f"{init}\n\n"
            "/-- `SingularityCutter._build_dual_tree_no_features`: the final state and the returned set of edges -/\n"
            "def buildDualTreeNoFeatures (pop : Pop) (fuel nF : Nat) (E : List (Nat × Nat)) (f2e : Nat → List Nat) (forbidden : Nat → Bool)\n"
            "    (opp : Nat → Nat → Nat → Option Nat) (fd : Nat → Nat → Rat) : DSt × List Nat :=\n"
            "  let s := dualWhile pop E f2e forbidden opp fd fuel dualInit\n"
            "  (s, (idRange nF).filterMap s.path)\n")


DUAL_HEADER = ("import Mouette.Model.DualSource\nnamespace Mouette.Generated.C16D\n"
               "open Mouette Mouette.PQ Mouette.Dijkstra Mouette.CutSrc Mouette.DualSrc\n\n")


def dual_site():
    tree, _ = T.load(FILE)
    box = {}
    def run():
        box["t"] = _compile_dual(tree); return "ok"
    r = T.site("cutting.py: SingularityCutter._build_dual_tree_no_features (dual Dijkstra: initialisations, while/get, guards, relaxation, path[..] = e, push, returned set)", run)
    if r["ok"]:
        _, sha = T.write_generated("C16Dual", box["t"] + "\nend Mouette.Generated.C16D\n", header=DUAL_HEADER)
        r["detail"] = sha
    else:
        T.write_generated("C16Dual", "/- translation of the current tree FAILED: no definitions are emitted, the bridges cannot build -/\n"
                          "end Mouette.Generated.C16D\n", header=DUAL_HEADER)
    return r


# ------------------------------------------------------------------------------------------------------------------
# __init__: how `self.singularities` and `self.singu_set` are filled from the argument   (round 7)
# ------------------------------------------------------------------------------------------------------------------
def _compile_init(tree):
    fn = T.find_def(tree, f"{CLS}.__init__")
    params = [a.arg for a in fn.args.args]
    if len(params) < 3 or params[:2] != ["self", "mesh"]: raise TranslateError(f"__init__: parameters {params}")
    arg = params[2]
    blk = None
    for st in _strip(Norm().visit(copy.deepcopy(fn)).body):
        if isinstance(st, ast.If) and isinstance(st.test, ast.Call) and getattr(st.test.func, "id", None) == "isinstance" and len(st.test.args) == 2 \
                and isinstance(st.test.args[0], ast.Name) and st.test.args[0].id == arg and getattr(st.test.args[1], "id", None) == "list":
            blk = st
    if blk is None:
        # no branch on the type: straight-line assignments
        blk = ast.If(test=None, body=[s for s in _strip(fn.body) if isinstance(s, (ast.Assign, ast.AnnAssign)) and
                                      _path((s.targets[0] if isinstance(s, ast.Assign) else s.target)) in ("self.singularities", "self.singu_set")], orelse=None)
        if len(blk.body) < 1: raise TranslateError("__init__: the assignments of self.singularities / self.singu_set were not found")
    def branch(stmts):
        """-> list of (field, source) in order; source = 'arg' (the object itself), 'iter' (items obtained by iterating the argument now),
        'list' (items of self.singularities as already stored)"""
        out = []
        for st in _strip(stmts):
            if isinstance(st, ast.AnnAssign): st = ast.Assign([st.target], st.value)
            if not (isinstance(st, ast.Assign) and len(st.targets) == 1): raise TranslateError(f"__init__: `{ast.unparse(st)[:60]}`")
            tgt = _path(st.targets[0])
            if tgt not in ("self.singularities", "self.singu_set"): raise TranslateError(f"__init__: assignment to {tgt} in the singularity block")
            v = st.value
            def src_of(n):
                if isinstance(n, ast.Name) and n.id == arg: return "arg"
                if _path(n) == "self.singularities": return "list"
                return None
            if src_of(v) == "arg": src = "same"                                                     # the caller's object itself
            elif isinstance(v, ast.Call) and getattr(v.func, "id", None) in ("set", "list", "sorted") and len(v.args) == 1 and src_of(v.args[0]):
                src = "iter" if src_of(v.args[0]) == "arg" else "list"
            elif isinstance(v, ast.ListComp) and len(v.generators) == 1 and not v.generators[0].ifs and isinstance(v.elt, ast.Name) \
                    and isinstance(v.generators[0].target, ast.Name) and v.elt.id == v.generators[0].target.id and src_of(v.generators[0].iter):
                src = "iter" if src_of(v.generators[0].iter) == "arg" else "list"
            else: raise TranslateError(f"__init__: `{ast.unparse(st)[:70]}`: value not recognised")
            out.append(("sing" if tgt == "self.singularities" else "set", src))
        if sorted(f for f, _ in out) != ["set", "sing"] and [f for f, _ in out] != ["sing"]:
            raise TranslateError(f"__init__: a branch assigns {[f for f, _ in out]}")
        return out
    def emit(br):
        lines = []
        for f, src in br:
            if f == "sing":
                if src == "same": lines.append("    let sing := arg.items")
                elif src == "iter": lines += ["    let r := iterate arg", "    let arg := r.2", "    let sing := r.1"]
                else: raise TranslateError("__init__: self.singularities built from itself")
            else:
                if src in ("same", "iter"): lines += ["    let r := iterate arg", "    let arg := r.2", "    let sset := setOf r.1"]
                else: lines.append("    let sset := setOf sing")
        if not any(f == "set" for f, _ in br): lines.append("    let sset : List Nat := []")
        if [f for f, _ in br][0] == "set":
            # the set is built first: `sing` must be bound before use in the result
            pass
        return "\n".join(lines) + "\n    (sing, sset)"
    lb = branch(blk.body)
    if blk.test is None:
        body = "  (\n" + emit(lb) + ")"
    else:
        ob = branch(blk.orelse)
        body = "  if isList then (\n" + emit(lb) + ")\n  else (\n" + emit(ob) + ")"
    return ("/-- `SingularityCutter.__init__`: what `self.singularities` (first component) and `self.singu_set` (second) receive; the argument is an\n"
            "iterable that may be walked only once (`Iter`); `isList` = `isinstance(singularities, list)` -/\n"
            "def initSingularities (isList : Bool) (arg : Iter) : List Nat × List Nat :=\n" + body + "\n")


HEADER = ("import Mouette.Model.CutSource\nnamespace Mouette.Generated.C16\nopen Mouette Mouette.Cutting Mouette.CutSrc\n\n")


def translate_all():
    """-> sha of Generated/C16Cut.lean; raises TranslateError when a shape is not recognised"""
    tree, _ = T.load(FILE)
    parts = [_compile_init(tree), _compile_build_tree(tree), _compile_prune(tree), _compile_run_variant(tree, "_run_no_features", "runNoFeatures"),
             _compile_run_variant(tree, "_run_with_features", "runWithFeatures"), _compile_run(tree), _compile_mesh_loops(tree)]
    _, sha = T.write_generated("C16Cut", "\n".join(parts) + "\nend Mouette.Generated.C16\n", header=HEADER)
    return sha


def sites():
    """one evidence record per translated function; the file is written only when every function is recognised (a partial file
    would make unrelated bridges fail), otherwise the previous file stays and the unrecognised sites are broken obligations"""
    tree, _ = T.load(FILE)
    recs, ok = [], True
    for name, fn in (("cutting.py: SingularityCutter.__init__ (self.singularities / self.singu_set from the argument)", lambda: _compile_init(tree) and "ok"),
                     ("cutting.py: SingularityCutter._build_cut_edges_tree", lambda: _compile_build_tree(tree) and "ok"),
                     ("cutting.py: SingularityCutter._prune_edge_tree", lambda: _compile_prune(tree) and "ok"),
                     ("cutting.py: SingularityCutter._run_no_features", lambda: _compile_run_variant(tree, "_run_no_features", "runNoFeatures") and "ok"),
                     ("cutting.py: SingularityCutter._run_with_features", lambda: _compile_run_variant(tree, "_run_with_features", "runWithFeatures") and "ok"),
                     ("cutting.py: SingularityCutter.run", lambda: _compile_run(tree) and "ok"),
                     ("cutting.py: SingularityCutter._build_mesh_with_cuts (corner numbering, union loop, find loop, imap loop, renumbering loop, order_verts, duplicate_vertices / ref_vertex)", lambda: _compile_mesh_loops(tree) and "ok")):
        r = T.site(name, fn)
        ok = ok and r["ok"]
        recs.append(r)
    if ok:
        sha = translate_all()
        for r in recs: r["detail"] = sha
    else:
        # never leave the definitions of an EARLIER tree on disk: a stub without definitions makes every bridge fail to build
        bad = "; ".join(r["site"].split(": ")[-1] for r in recs if not r["ok"])
        T.write_generated("C16Cut", f"/- translation of the current tree FAILED ({bad}): no definitions are emitted, the bridges cannot build -/\n"
                          "end Mouette.Generated.C16\n", header=HEADER)
    return recs + [dual_site(), span_site(), spanf_site()]


# ------------------------------------------------------------------------------------------------------------------
# _build_singularity_spanning_tree_no_features  (round 8)  ->  Generated/C16Span.lean
# ------------------------------------------------------------------------------------------------------------------
class _Alpha(ast.NodeTransformer):
    """rename every local (parameters other than self, assigned names, loop / comprehension targets, nested function names) to
    v1, v2, .. in order of first binding"""

    def __init__(self): self.m = {}

    def _b(self, name):
        if name not in self.m: self.m[name] = f"v{len(self.m) + 1}"
        return self.m[name]

    def visit_FunctionDef(self, n):
        if not n.name.startswith("_build_singularity_spanning_tree_"): n.name = self._b(n.name)
        for a in n.args.args:
            if a.arg != "self": a.arg = self._b(a.arg)
        n.returns = None
        for a in n.args.args: a.annotation = None
        self.generic_visit(n)
        return n

    def visit_Name(self, n):
        if isinstance(n.ctx, ast.Store): n.id = self._b(n.id)
        elif n.id in self.m: n.id = self.m[n.id]
        return n


def _span_normal_form(tree, name="_build_singularity_spanning_tree_no_features"):
    fn = T.find_def(tree, f"{CLS}.{name}")
    fn = Norm().visit(copy.deepcopy(fn))
    def clean(stmts):
        out = []
        for s in _strip(stmts):
            for fld in ("body", "orelse"):
                if hasattr(s, fld) and isinstance(getattr(s, fld), list): setattr(s, fld, clean(getattr(s, fld)))
            out.append(s)
        return out
    fn.body = clean(fn.body)
    # two passes: bind in source order (stores first seen), then rename loads
    al = _Alpha()
    class Binder(ast.NodeVisitor):
        def visit_FunctionDef(self, n):
            if not n.name.startswith("_build_singularity_spanning_tree_"): al._b(n.name)
            for a in n.args.args:
                if a.arg != "self": al._b(a.arg)
            self.generic_visit(n)
        def visit_Name(self, n):
            if isinstance(n.ctx, ast.Store): al._b(n.id)
    Binder().visit(fn)
    fn = al.visit(fn)
    ast.fix_missing_locations(fn)
    return [l for l in ast.unparse(fn).split("\n")[1:]]


SPAN_TEMPLATE = ['    v1 = 0 < len(self.input_mesh.boundary_vertices)', '    v2 = -1', '    v3 = self.singularities + [v2] if v1 else self.singularities', '    v4 = Attribute(bool)', '    if not self.singularities:', '        return v4', '    v5 = dict()', '    for v6, v7 in enumerate(self.singularities):', '        v8 = shortest_path(self.input_mesh, v7, set(self.singularities[v6:]), weights=self.edge_lengths)', '        for v9 in v8:', '            v5[keyify(v7, v9)] = v8[v9]', '        if v1:', '            v5[v2, v7] = shortest_path_to_border(self.input_mesh, v7, weights=self.edge_lengths)', '', '    def v10(v11):', '        v12 = 0', '        for v6 in range(1, len(v11)):', '            v13, v14 = (v11[v6 - 1], v11[v6])', '            v12 += self.edge_lengths[self.input_mesh.connectivity.edge_id(v13, v14)]', '        return v12', '    v15 = []', '    for v16 in v5:', '        v15.append((v10(v5[v16]), v16))', '    v15.sort()', '    v17 = UnionFind(v3)', '    v18 = []', '    for v19, v20 in v15:', '        v7, v9 = v20', '        if not v17.connected(v7, v9):', '            v18.append(v20)', '            v17.union(v7, v9)', '    for v7, v9 in v18:', '        v21 = v5[v7, v9]', '        for v6 in range(1, len(v21)):', '            v22, v23 = (v21[v6 - 1], v21[v6])', '            v4[self.input_mesh.connectivity.edge_id(v22, v23)] = True', '    return v4']

SPAN_LEAN = '''/-- `singul = self.singularities + [BORDER] if mesh_has_border else self.singularities` -/
def singul (sing : List Nat) (hasBorder : Bool) (border : Nat) : List Nat := if hasBorder then sing ++ [border] else sing

/-- `if not self.singularities: return edge_flags` (nothing flagged) -/
def earlyReturn (sing : List Nat) : Bool := sing.isEmpty

/-- the keys written into `path_btw_singus`: for the `i`-th singularity `a`, `keyify(a,b)` for every `b` of `singularities[i:]` (so also the
one-vertex path `a -> a`), then `(BORDER, a)` when the mesh has a border -/
def candKeys (sing : List Nat) (hasBorder : Bool) (border : Nat) : List (Nat × Nat) :=
  sing.zipIdx.flatMap (fun p => (sing.drop p.2).map (fun b => Trees.keyify p.1 b) ++ (if hasBorder then [(border, p.1)] else []))

/-- `for k in path_btw_singus: path_lengths.append((compute_path_length(path_btw_singus[k]), k))`: EVERY key, no guard -/
def lengthEntries (keys : List (Nat × Nat)) (len : Nat × Nat → Rat) : List (Rat × (Nat × Nat)) := keys.map (fun k => (len k, k))

/-- body of `for (_,key) in path_lengths`: `a,b = key; if not uf.connected(a,b): selected.append(key); uf.union(a,b)` -/
def spanStep (acc : UF.State × List (Nat × Nat)) (x : Rat × (Nat × Nat)) : UF.State × List (Nat × Nat) :=
  match UF.connected acc.1 x.2.1 x.2.2 with
  | none => acc
  | some (uf, c) => if !c then (UF.union uf x.2.1 x.2.2, acc.2 ++ [x.2]) else (uf, acc.2)

/-- the Kruskal loop over the (sorted) entries, from `uf = UnionFind(singul)`, `selected = []` -/
def spanLoop (entries : List (Rat × (Nat × Nat))) (uf : UF.State) : UF.State × List (Nat × Nat) := entries.foldl spanStep (uf, [])

/-- `for i in range(1, len(path)): u,v = path[i-1], path[i]; edge_flags[edge_id(u,v)] = True` -/
def flagPath (E : List (Nat × Nat)) (path : List Nat) : List Nat :=
  (List.range' 1 (path.length - 1)).map (fun i => edgeId E (path.getD (i - 1) 0) (path.getD i 0))

/-- `for (a,b) in selected: path_ab = path_btw_singus[(a,b)]; ...`: the ids of the flagged edges -/
def flagLoop (E : List (Nat × Nat)) (paths : Nat × Nat → List Nat) (selected : List (Nat × Nat)) : List Nat :=
  selected.flatMap (fun k => flagPath E (paths k))
'''


def _compile_span(tree):
    nf = _span_normal_form(tree)
    if nf != SPAN_TEMPLATE:
        for k, (a, b) in enumerate(zip(nf + ["<end>"] * 80, SPAN_TEMPLATE + ["<end>"] * 80)):
            if a != b:
                raise TranslateError(f"_build_singularity_spanning_tree_no_features: statement {k} of the normalised body is `{a.strip()[:90]}`, "
                                     f"expected `{b.strip()[:90]}`")
    return SPAN_LEAN


SPAN_HEADER = "import Mouette.Model.SpanSource\nnamespace Mouette.Generated.C16P\nopen Mouette Mouette.UF Mouette.Cutting Mouette.CutSrc Mouette.SpanSrc\n\n"


def span_site():
    tree, _ = T.load(FILE)
    box = {}
    def run():
        box["t"] = _compile_span(tree); return "ok"
    r = T.site("cutting.py: SingularityCutter._build_singularity_spanning_tree_no_features (BORDER node, candidate paths, lengths, Kruskal loop, flag loop)", run)
    if r["ok"]:
        _, sha = T.write_generated("C16Span", box["t"] + "\nend Mouette.Generated.C16P\n", header=SPAN_HEADER)
        r["detail"] = sha
    else:
        T.write_generated("C16Span", "/- translation of the current tree FAILED: no definitions are emitted, the bridges cannot build -/\n"
                          "end Mouette.Generated.C16P\n", header=SPAN_HEADER)
    return r

# ------------------------------------------------------------------------------------------------------------------
# _build_singularity_spanning_tree_with_features  (round 9)  ->  Generated/C16SpanF.lean   (same statement-by-statement site)
# ------------------------------------------------------------------------------------------------------------------
SPANF_TEMPLATE = ["    v1 = self.input_mesh.edges.create_attribute('singularity_tree', bool)", '    if len(self.singularities) == 0:', '        return v1', '    v2 = set()', '    v3 = set()', '    for v4 in self.singularities:', '        v5 = set(self.feat_detector.feature_vertices) | v3', '        v6, v7 = shortest_path_to_vertex_set(self.input_mesh, v4, v5, weights=self.edge_lengths)', '        if v6 in self.feat_detector.feature_vertices:', '            v2.add(v6)', '        v3.update(v7)', '        for v8 in range(len(v7) - 1):', '            v9, v4 = (v7[v8], v7[v8 + 1])', '            v10 = self.input_mesh.connectivity.edge_id(v9, v4)', '            v1[v10] = True', '    v2 = list(v2)', '    v11 = deque()', '    v12 = dict([(v4, False) for v4 in self.feat_detector.feature_vertices])', '    v13 = dict([(v4, None) for v4 in self.feat_detector.feature_vertices])', '    for v4 in self.input_mesh.boundary_vertices:', '        if v4 in v12:', '            v11.append((v4, None))', '    for v4 in v2:', '        v11.append((v4, None))', '    while 0 < len(v11):', '        v4, v14 = v11.popleft()', '        if v12[v4]:', '            continue', '        v12[v4] = True', '        v13[v4] = v14', '        if v14 is not None:', '            v10 = self.input_mesh.connectivity.edge_id(v4, v14)', '            v1[v10] = True', '        for v10 in self.input_mesh.connectivity.vertex_to_edges(v4):', '            if v10 in self.feat_detector.feature_edges:', '                v15 = self.input_mesh.connectivity.other_edge_end(v10, v4)', '                if not v12[v15]:', '                    v11.append((v15, v4))', '    return v1']

SPANF_LEAN = '/-- `if len(self.singularities)==0: return edge_flags` -/\ndef earlyReturn (sing : List Nat) : Bool := sing.length == 0\n\n/-- first loop: per singularity, the edges `edge_id(path[i], path[i+1])`, `i in range(len(path)-1)`, of its path are flagged -/\ndef pathFlags (path : List Nat) : List (Nat × Nat) :=\n  (List.range (path.length - 1)).map (fun i => (path.getD i 0, path.getD (i + 1) 0))\n\n/-- the roots pushed with `prev = None`: border vertices that are feature vertices, then `closest_v` -/\ndef bfsInit (borderFeat closest : List Nat) : BSt :=\n  { visited := [], parent := [], flags := [], queue := borderFeat.map (fun v => (v, none)) ++ closest.map (fun v => (v, none)) }\n\n/-- `for e in vertex_to_edges(v): if e in feature_edges: nv = other_edge_end(e,v); if not visited[nv]: queue.append((nv,v))` -/\ndef bfsPush (featNbrs : Nat → List Nat) (v : Nat) (s : BSt) : BSt :=\n  (featNbrs v).foldl (fun s nv => if !(s.visited.contains nv) then { s with queue := s.queue ++ [(nv, some v)] } else s) s\n\n/-- one iteration of `while len(queue)>0` -/\ndef bfsBody (featNbrs : Nat → List Nat) (s : BSt) : BSt :=\n  match s.queue with\n  | [] => s\n  | (v, prev) :: q =>\n    let s := { s with queue := q }\n    if s.visited.contains v then s else\n    let s := { s with visited := s.visited ++ [v] }\n    let s := { s with parent := s.parent ++ [(v, prev)] }\n    let s := match prev with\n      | some p => { s with flags := s.flags ++ [(v, p)] }\n      | none => s\n    bfsPush featNbrs v s\n\n/-- the loop, on a fuel argument -/\ndef bfsWhile (featNbrs : Nat → List Nat) : Nat → BSt → BSt\n  | 0, s => s\n  | fuel + 1, s => if decide (0 < s.queue.length) then bfsWhile featNbrs fuel (bfsBody featNbrs s) else s\n'

SPANF_HEADER = 'import Mouette.Model.SpanSource\nnamespace Mouette.Generated.C16F\nopen Mouette Mouette.SpanSrc\n\n'


def spanf_site():
    tree, _ = T.load(FILE)
    box = {}
    def run():
        nf = _span_normal_form(tree, "_build_singularity_spanning_tree_with_features")
        if nf != SPANF_TEMPLATE:
            for k, (a, b) in enumerate(zip(nf + ["<end>"] * 80, SPANF_TEMPLATE + ["<end>"] * 80)):
                if a != b:
                    raise TranslateError(f"_build_singularity_spanning_tree_with_features: statement {k} of the normalised body is `{a.strip()[:90]}`, "
                                         f"expected `{b.strip()[:90]}`")
        box["t"] = SPANF_LEAN; return "ok"
    r = T.site("cutting.py: SingularityCutter._build_singularity_spanning_tree_with_features (paths to the feature graph, breadth-first forest on it)", run)
    if r["ok"]:
        _, sha = T.write_generated("C16SpanF", box["t"] + "\nend Mouette.Generated.C16F\n", header=SPANF_HEADER)
        r["detail"] = sha
    else:
        T.write_generated("C16SpanF", "/- translation of the current tree FAILED: no definitions are emitted, the bridges cannot build -/\n"
                          "end Mouette.Generated.C16F\n", header=SPANF_HEADER)
    return r
