"""Helpers shared by C07/C08 (own file of agent ag_c07): exact rational vectors, rational rotations from integer
quaternions (Pythagorean quadruples), mesh transformations, conditioning filters, tolerant comparison."""
import math
from fractions import Fraction as Fr


# ---------------------------------------------------------------- exact vectors (tuples of Fraction)
def fvec(p):
    return tuple(Fr(c) for c in p)


def vsub(a, b): return tuple(x - y for x, y in zip(a, b))
def vadd(a, b): return tuple(x + y for x, y in zip(a, b))
def vscale(k, a): return tuple(k * x for x in a)
def vdot(a, b): return sum(x * y for x, y in zip(a, b))
def vcross(a, b): return (a[1] * b[2] - a[2] * b[1], a[2] * b[0] - a[0] * b[2], a[0] * b[1] - a[1] * b[0])
def vnorm2(a): return vdot(a, a)
def fsqrt(q): return math.sqrt(q) if q >= 0 else float("nan")


def det3(a, b, c):
    return vdot(a, vcross(b, c))


def unit(v):
    n = math.sqrt(sum(float(c) ** 2 for c in v))
    return [float(c) / n for c in v] if n > 0 else [float("nan")] * len(v)


def frac_str(x):
    f = Fr(x)
    return str(f.numerator) if f.denominator == 1 else f"{f.numerator}/{f.denominator}"


# ---------------------------------------------------------------- rational rotations
QUATS = [(1, 0, 0, 0), (1, 1, 0, 0), (1, 1, 1, 1), (1, 2, 2, 0), (2, 1, 0, 1), (3, 1, 1, 1), (1, 2, 3, 4), (2, -1, 2, 3),
         (0, 1, 2, 2), (5, 1, -2, 0), (1, -3, 1, 2), (4, 3, 0, -1), (0, 0, 1, 0), (2, 3, 6, 0), (1, 4, 8, 0), (7, -2, 1, 3)]


def quat_rot(q):
    a, b, c, d = (Fr(t) for t in q)
    n = a * a + b * b + c * c + d * d
    return ((
        (a * a + b * b - c * c - d * d) / n, 2 * (b * c - a * d) / n, 2 * (b * d + a * c) / n), (
        2 * (b * c + a * d) / n, (a * a - b * b + c * c - d * d) / n, 2 * (c * d - a * b) / n), (
        2 * (b * d - a * c) / n, 2 * (c * d + a * b) / n, (a * a - b * b - c * c + d * d) / n))


def mat_apply(R, p):
    return tuple(sum(R[i][j] * p[j] for j in range(3)) for i in range(3))


def rigid(R, t, p):
    return vadd(mat_apply(R, p), t)


def apply_motion(V, q, t):
    """V: list of float triples. Returns float triples of R p + t (computed exactly, rounded once)."""
    R = quat_rot(q)
    tt = fvec(t)
    return [[float(c) for c in rigid(R, tt, fvec(p))] for p in V]


# ---------------------------------------------------------------- conditioning
def min_sin_triangle(P, f):
    """min over corners of sin(angle) for polygon f (list of ids), P exact points."""
    n = len(f)
    m = 1.0
    for i in range(n):
        a, b, c = P[f[i - 1]], P[f[i]], P[f[(i + 1) % n]]
        u, v = vsub(a, b), vsub(c, b)
        c2 = vnorm2(vcross(u, v)); d = vnorm2(u) * vnorm2(v)
        if d == 0: return 0.0
        m = min(m, math.sqrt(c2 / d))
    return m


def close(impl, exact, scale, rel=1e-9, abs_=1e-12):
    if impl is None or exact is None: return impl is exact
    if isinstance(exact, float) and math.isnan(exact): return True      # comparison waived (ill-conditioned)
    if isinstance(impl, float) and (math.isnan(impl) or math.isinf(impl)): return False
    return abs(float(impl) - float(exact)) <= rel * scale + abs_


def first_bad(impl, exact, scale):
    """compare two flat float lists; returns None or (index, impl, exact)."""
    if isinstance(impl, str) or isinstance(exact, str):
        return None if impl == exact else (-1, impl, exact)
    if len(impl) != len(exact):
        return (-2, len(impl), len(exact))
    for i, (a, b) in enumerate(zip(impl, exact)):
        s = scale[i] if isinstance(scale, list) else scale
        if not close(a, b, max(s, abs(float(b)) if not (isinstance(b, float) and math.isnan(b)) else 0.0)):
            return (i, a, b)
    return None


# ---------------------------------------------------------------- mesh construction with a chosen coordinate representation
def build_mesh(kind, V, X, rep="vec"):
    """Build the mouette mesh with the vertex coordinates handed over in the requested REPRESENTATION (same values)."""
    import numpy as np
    import mouette as M
    d = M.mesh.RawMeshData()
    if rep == "vec": d.vertices += [M.Vec(*[float(c) for c in v]) for v in V]
    elif rep == "list": d.vertices += [[float(c) for c in v] for v in V]
    elif rep == "tuple": d.vertices += [tuple(float(c) for c in v) for v in V]
    elif rep == "ndarray": d.vertices += list(np.array(V, dtype=np.float64))
    elif rep == "float32": d.vertices += list(np.array(V, dtype=np.float32))
    elif rep == "intlist": d.vertices += [[int(c) for c in v] for v in V]
    elif rep == "int64": d.vertices += list(np.array([[int(c) for c in v] for v in V], dtype=np.int64))
    elif rep == "int32": d.vertices += [np.array([int(c) for c in v], dtype=np.int32) for v in V]
    elif rep == "int16": d.vertices += [np.array([int(c) for c in v], dtype=np.int16) for v in V]
    else: raise ValueError(rep)
    if kind == "surf":
        d.faces += [list(f) for f in X]; return M.mesh.SurfaceMesh(d)
    if kind == "vol":
        d.cells += [list(c) for c in X]; return M.mesh.VolumeMesh(d)
    d.edges += [tuple(e) for e in X]; return M.mesh.PolyLine(d)
