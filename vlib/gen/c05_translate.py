"""C05 translated BODIES: Python `ast` -> Lean (lean/Mouette/Generated/C05Src.lean), re-extracted on every run from
$MOUETTE_REPO/mouette/mesh/mesh_attributes.py and data_container.py (vocabulary: lean/Mouette/Model/AttrSource.lean).

Every function on the whitelist FUNCS is read IMPERATIVELY and compiled to a state-passing Lean definition
    <params> -> Heap -> Self -> Except Err (R x Heap x Self)            (Cont instead of Self for DataContainer methods)
(pure one-liners `__len__`, `has_attribute`, the `default_value` property: plain functions).

statement forms: docstrings / `pass` / `warnings.warn(..)` (dropped); `return e`; `raise X(..)`; `if / elif / else` (the
continuation is duplicated into both branches); local `v = e` (a raising right-hand side — `list(value)`, `Attribute.Type(t)`,
a constructor call — becomes a `match`); `self.f = e`; `self.f += e`; `self._data[key] = e` (dict: NEW object + binding;
array: row copy in place); `self._attr[name] = <constructor>`; `del self._attr[name]`; `self._data.append(e)`;
`self._data += e`; `self.m(args)` as a statement; `for x in <list local>: <checks>` (forE);
`for a in self._attr.values(): a.m(e)` (forAttrs with dispatch on the class of the object).

Tolerated respellings (normalised before compiling; the generated text does not change): renamed locals / parameters;
`not a == b` = `a != b`; `not a in b`; `a > b` = `b < a`; `a >= b` = `b <= a`; operand order of `==` / `!=` / `+` between
call-free operands; `x += e` = `x = x + e`; `{}` = `dict()`; docstrings, comments, `pass`, annotations, log calls.
Anything else raises TranslateError -> the site is a broken obligation -> failing-input search.
"""
import ast
import copy

from .. import translate as T
from ..translate import TranslateError

ATTR_FILE = "mouette/mesh/mesh_attributes.py"
CONT_FILE = "mouette/mesh/data_container.py"

EXC = {"OutOfBoundsError": ".oob", "InvalidSizeError": ".size", "TypeNotMatchingError": ".type",
       "DefaultValueTypeDoesNotMatchError": ".dfltType"}
EXC_MSG = {"Attribute does not exist": ".noAttr", "Could not append data container": ".typeError",
           "data array has invalid shape": ".size"}        # the bare `Exception` of register_array_as_attribute (no class of its own)


# ------------------------------------------------------------------------------------------------------------------
# normalisation
# ------------------------------------------------------------------------------------------------------------------
def _callfree(n):
    return not any(isinstance(x, ast.Call) for x in ast.walk(n))


def _rank(n):
    """canonical operand order of commutative operators: constants, then locals, then expressions reading `self`"""
    if isinstance(n, ast.Constant): return 0
    return 2 if any(isinstance(x, ast.Name) and x.id == "self" for x in ast.walk(n)) else 1


class Norm(ast.NodeTransformer):
    def visit_UnaryOp(self, n):
        self.generic_visit(n)
        if isinstance(n.op, ast.Not) and isinstance(n.operand, ast.Compare) and len(n.operand.ops) == 1:
            c = n.operand
            flip = {ast.Eq: ast.NotEq, ast.NotEq: ast.Eq, ast.In: ast.NotIn, ast.NotIn: ast.In, ast.Is: ast.IsNot, ast.IsNot: ast.Is}
            if type(c.ops[0]) in flip:
                return self.visit(ast.Compare(left=c.left, ops=[flip[type(c.ops[0])]()], comparators=c.comparators))
        return n

    def visit_Compare(self, n):
        self.generic_visit(n)
        if len(n.ops) == 1:
            op, a, b = n.ops[0], n.left, n.comparators[0]
            if isinstance(op, ast.Gt): return ast.Compare(left=b, ops=[ast.Lt()], comparators=[a])
            if isinstance(op, ast.GtE): return ast.Compare(left=b, ops=[ast.LtE()], comparators=[a])
            if isinstance(op, (ast.Eq, ast.NotEq)) and _callfree(a) and _callfree(b) and _rank(a) > _rank(b):
                return ast.Compare(left=b, ops=[op], comparators=[a])
            if isinstance(op, (ast.Eq, ast.NotEq)) and _callfree(a) != _callfree(b):
                # one operand contains a call (`len(..)`): a constant goes to the right of it, a plain name to the left
                free, call = (a, b) if _callfree(a) else (b, a)
                want = (call, free) if isinstance(free, ast.Constant) else (free, call) if isinstance(free, ast.Name) else (a, b)
                if (a, b) != want: return ast.Compare(left=want[0], ops=[op], comparators=[want[1]])
        return n

    def visit_BinOp(self, n):
        self.generic_visit(n)
        if isinstance(n.op, ast.Add) and _callfree(n.left) and _callfree(n.right) and _rank(n.left) > _rank(n.right):
            return ast.BinOp(left=n.right, op=ast.Add(), right=n.left)
        return n

    def visit_AugAssign(self, n):
        self.generic_visit(n)
        if isinstance(n.op, ast.Add) and isinstance(n.target, ast.Attribute) and n.target.attr in ("n_elem",):
            tgt_load = copy.deepcopy(n.target); tgt_load.ctx = ast.Load()
            return self.visit_Assign(ast.Assign(targets=[n.target], value=self.visit_BinOp(ast.BinOp(left=tgt_load, op=ast.Add(), right=n.value))))
        return n

    def visit_Assign(self, n):
        self.generic_visit(n)
        return n

    def visit_If(self, n):
        self.generic_visit(n)
        if isinstance(n.test, ast.UnaryOp) and isinstance(n.test.op, ast.Not) and n.orelse:      # `if not c: A else: B` = `if c: B else: A`
            return ast.If(test=n.test.operand, body=n.orelse, orelse=n.body)
        if isinstance(n.test, ast.Compare) and len(n.test.ops) == 1 and isinstance(n.test.ops[0], ast.IsNot) and n.orelse:   # `is not None` + else
            return ast.If(test=ast.Compare(left=n.test.left, ops=[ast.Is()], comparators=n.test.comparators), body=n.orelse, orelse=n.body)
        return n

    def visit_Dict(self, n):
        if not n.keys:
            return ast.Call(func=ast.Name(id="dict", ctx=ast.Load()), args=[], keywords=[])
        return n


def _strip(body):
    out = []
    for s in body:
        if isinstance(s, ast.Expr) and isinstance(s.value, ast.Constant): continue        # docstring
        if isinstance(s, ast.Pass): continue
        if isinstance(s, ast.Expr) and isinstance(s.value, ast.Call) and ast.unparse(s.value.func) in ("warnings.warn", "print"):
            continue                                                                           # log call
        if isinstance(s, ast.AnnAssign) and s.value is not None:
            s = ast.Assign(targets=[s.target], value=s.value)
        for f in ("body", "orelse"):
            if hasattr(s, f) and isinstance(getattr(s, f), list):
                setattr(s, f, _strip(getattr(s, f)))
        out.append(s)
    return out


def _is_self(n, attr=None):
    return isinstance(n, ast.Attribute) and isinstance(n.value, ast.Name) and n.value.id == "self" and (attr is None or n.attr == attr)


def ind(txt, k=2):
    return "\n".join(" " * k + l for l in txt.split("\n"))


# ------------------------------------------------------------------------------------------------------------------
# whitelist
# ------------------------------------------------------------------------------------------------------------------
# qualified name -> (lean name, class context, [(param type)], return type, pure?)
FUNCS = [
    ("_BaseAttribute._check_default_value_type", "checkDefaultValueType", "base", [], "Unit", False),
    ("Attribute.__init__", "sparseInit", "sparse", ["Ty", "Nat", "OptScalar"], "Unit", False),
    ("Attribute.__getitem__", "sparseGetitem", "sparse", ["Int"], "Res", False),
    ("Attribute.__setitem__", "sparseSetitem", "sparse", ["Int", "InVal"], "Unit", False),
    ("Attribute._expand", "sparseExpand", "sparse", ["Nat"], "Unit", False),
    ("Attribute.__len__", "sparseLen", "sparse", [], "Nat", True),
    ("Attribute.clear", "sparseClear", "sparse", [], "Unit", False),
    ("Attribute.as_array", "sparseAsArray", "sparse", ["Nat"], "Mat", False),
    ("ArrayAttribute.__init__", "denseInit", "dense", ["Ty", "Nat", "Nat", "OptScalar"], "Unit", False),
    ("ArrayAttribute._check_out_of_bounds", "checkOutOfBounds", "dense", ["Int"], "Unit", False),
    ("ArrayAttribute.__getitem__", "denseGetitem", "dense", ["Int"], "Res", False),
    ("ArrayAttribute.__setitem__", "denseSetitem", "dense", ["Int", "InVal"], "Unit", False),
    ("ArrayAttribute._expand", "denseExpand", "dense", ["Nat"], "Unit", False),
    ("ArrayAttribute.__len__", "denseLen", "dense", [], "Nat", True),
    ("ArrayAttribute.as_array", "denseAsArray", "dense", [], "Mat", True),
    ("ArrayAttribute.clear", "denseClear", "dense", [], "Unit", False),
]
CONT_FUNCS = [
    ("_BaseDataContainer.__init__", "baseContInit", "cont", ["OptAttrDict", "Str"], "Unit", False),
    ("DataContainer.__init__", "contInit", "cont", ["OptElems", "OptAttrDict", "Str"], "Unit", False),
    ("DataContainer.__len__", "contLen", "cont", [], "Nat", True),
    ("_BaseDataContainer.has_attribute", "hasAttribute", "cont", ["Str"], "Bool", True),
    ("_BaseDataContainer.create_attribute", "createAttribute", "cont", ["Str", "Ty", "Nat", "Bool", "OptScalar", "OptNat"], "Self", False),
    ("_BaseDataContainer.register_array_as_attribute", "registerArray", "cont", ["Str", "ArrIn", "OptScalar"], "Self", False),
    ("_BaseDataContainer.delete_attribute", "deleteAttribute", "cont", ["Str"], "Unit", False),
    ("_BaseDataContainer.get_attribute", "getAttribute", "cont", ["Str"], "Self", False),
    ("DataContainer.clear", "contClear", "cont", [], "Unit", False),
    ("DataContainer.append", "contAppend", "cont", ["Nat"], "Unit", False),
    ("DataContainer.__iadd__", "contIadd", "cont", ["Other"], "Unit", False),
]
LEAN_TY = {"Nat": "Nat", "Int": "Int", "Bool": "Bool", "Ty": "Ty", "InVal": "InVal", "OptScalar": "Option Scalar", "OptNat": "Option Nat",
           "Str": "String", "Other": "Other", "ArrIn": "ArrIn", "OptAttrDict": "Option (List (String × Self))", "OptElems": "Option (List Nat)", "Unit": "Unit", "Res": "Res", "Self": "Self", "Mat": "List Val", "Scalars": "List Scalar"}
LEAN_OF = {q: l for q, l, *_ in FUNCS + CONT_FUNCS}
SELF_FIELDS = {"elemsize": ("self.elemsize", "Nat"), "n_elem": ("self.nElem", "Nat"), "type": ("self.type", "Ty"),
               "_default_value": ("self.dv", "OptScalar"), "default_value": ("(defaultValue self)", "Dflt")}
SELF_STORE = {"elemsize": ("elemsize", "Nat"), "n_elem": ("nElem", "Nat"), "type": ("type", "Ty"), "_default_value": ("dv", "OptScalar")}
# methods reachable through `attr.<m>(..)` inside container loops: (sparse function, dense function)
DISPATCH = {"_expand": ("sparseExpand", "denseExpand", ["Nat"])}
CTOR = {"Attribute": "Attribute.__init__", "ArrayAttribute": "ArrayAttribute.__init__"}


class Fn:
    """one function being compiled"""

    def __init__(self, qual, lean, cls, ptypes, ret, pure, node, ctor_sigs):
        self.qual, self.lean, self.cls, self.ret, self.pure, self.node = qual, lean, cls, ret, pure, node
        self.ctor_sigs = ctor_sigs
        args = [a.arg for a in node.args.args]
        if not args or args[0] != "self": raise TranslateError(f"{qual}: first parameter is not self")
        args = args[1:]
        for dflt in list(node.args.defaults) + [d for d in node.args.kw_defaults if d is not None]:
            if isinstance(dflt, (ast.Dict, ast.List, ast.Set, ast.Call, ast.ListComp, ast.DictComp)):
                raise TranslateError(f"{qual}: mutable default argument `{ast.unparse(dflt)}` (ONE object shared by every call)")
        if node.args.vararg is not None and qual == "ArrayAttribute.as_array": args = []
        if len(args) != len(ptypes): raise TranslateError(f"{qual}: {len(args)} parameters, expected {len(ptypes)}")
        self.env = {}
        self.params = []
        for i, (a, t) in enumerate(zip(args, ptypes)):
            self.env[a] = (f"a{i}", t)
            self.params.append((f"a{i}", t))
        self.nloc = 0
        self.ntmp = 0
        self.check_mode = False
        self.state = "Cont" if cls == "cont" else "Self"

    def err(self, msg, node=None):
        at = f" at `{ast.unparse(node)[:90]}`" if node is not None else ""
        raise TranslateError(f"{self.qual}: {msg}{at}")

    def fresh(self, p="t"):
        self.ntmp += 1
        return f"{p}{self.ntmp}"

    # ------------------------------------------------------------------ expressions
    def E(self, n, pre):
        """-> (lean term, type); raising sub-expressions are appended to `pre` as match-binders"""
        if isinstance(n, ast.Name):
            if n.id in self.env: return self.env[n.id]
            self.err("unknown name", n)
        if isinstance(n, ast.List) and not n.elts: return "[]", "Elems"
        if isinstance(n, ast.Constant):
            if isinstance(n.value, bool): return ("true" if n.value else "false"), "Bool"
            if isinstance(n.value, int): return str(n.value), "Nat"
            self.err("unsupported constant", n)
        if _is_self(n):
            if self.cls == "cont":
                if n.attr == "_data": return "self.data", "Elems"
                if n.attr == "_attr": return "self.attr", "AttrDict"
                self.err("unknown container field", n)
            if n.attr == "_data":
                if self.cls == "dense": return "(cellMat h self.data.asRef)", "Mat"
                if self.cls == "sparse": return "self.data.asDict", "Dict"
            if n.attr in SELF_FIELDS: return SELF_FIELDS[n.attr]
            self.err("unknown attribute field", n)
        if isinstance(n, ast.Attribute) and ast.unparse(n) == "config.display_duplicate_attribute_warning":
            return "warnDup", "Bool"
        if isinstance(n, ast.Attribute) and isinstance(n.value, ast.Name) and n.value.id in self.env and self.env[n.value.id][1] == "Other" \
                and n.attr == "_data":
            return f"({self.env[n.value.id][0]}.dataOf self)", "Elems"
        if isinstance(n, ast.Attribute) and n.attr == "shape" and isinstance(n.value, ast.Name) and n.value.id in self.env \
                and self.env[n.value.id][1] == "ArrIn":
            return self.env[n.value.id][0], "Shape"
        if isinstance(n, ast.UnaryOp) and isinstance(n.op, ast.Not):
            a, t = self.E(n.operand, pre)
            if t != "Bool": self.err("`not` of a non-boolean", n)
            return f"(!{a})", "Bool"
        if isinstance(n, ast.BoolOp):
            parts = []
            for v in n.values:
                sub = []
                a, t = self.E(v, sub)
                if sub: self.err("raising call inside a boolean operator", n)
                if t != "Bool": self.err("non-boolean operand", v)
                parts.append(a)
            return "(" + (" || " if isinstance(n.op, ast.Or) else " && ").join(parts) + ")", "Bool"
        if isinstance(n, ast.BinOp) and isinstance(n.op, ast.Add):
            a, ta = self.E(n.left, pre); b, tb = self.E(n.right, pre)
            if ta == tb == "Nat": return f"({a} + {b})", "Nat"
            self.err("unsupported `+`", n)
        if isinstance(n, ast.IfExp):
            c, tc = self.E(n.test, pre)
            sub = []
            a, ta = self.E(n.body, sub); b, tb = self.E(n.orelse, sub)
            if sub: self.err("raising call inside a conditional expression", n)
            if ta == "Res1" and tb == "Res" and ast.unparse(n.test) in ("self.elemsize == 1", "1 == self.elemsize"): ta = "Res"
            if ta != tb: self.err(f"branches of different kinds ({ta} / {tb})", n)
            return f"(if {c} then {a} else {b})", ta
        if isinstance(n, ast.Compare):
            return self.compare(n, pre)
        if isinstance(n, ast.Subscript):
            return self.subscript(n, pre)
        if isinstance(n, ast.Call):
            return self.call(n, pre)
        self.err("unsupported expression", n)

    def compare(self, n, pre):
        if len(n.ops) != 1: self.err("chained comparison", n)
        op, l, r = n.ops[0], n.left, n.comparators[0]
        if isinstance(op, (ast.Is, ast.IsNot)):
            if not (isinstance(r, ast.Constant) and r.value is None): self.err("`is` with something else than None", n)
            a, t = self.E(l, pre)
            if t not in ("OptScalar", "OptNat", "OptAttrDict", "OptElems"): self.err("`is None` on a value that is never None here", n)
            return f"{a}.{'isNone' if isinstance(op, ast.Is) else 'isSome'}", "Bool"
        if isinstance(op, (ast.In, ast.NotIn)):
            a, ta = self.E(l, pre); b, tb = self.E(r, pre)
            if tb == "Dict" and ta == "Int": t = f"(dictMem {b} {a})"
            elif tb == "AttrDict" and ta == "Str": t = f"(attrMem {b} {a})"
            else: self.err("unsupported membership test", n)
            return (t if isinstance(op, ast.In) else f"(!{t})"), "Bool"
        a, ta = self.E(l, pre); b, tb = self.E(r, pre)
        sym = {ast.Lt: "<", ast.LtE: "≤", ast.Eq: "=", ast.NotEq: "≠"}.get(type(op))
        if sym is None: self.err("unsupported comparison", n)
        if {ta, tb} == {"Nat", "Int"}:
            if ta == "Nat": a = f"(({a} : Nat) : Int)"
            else: b = f"(({b} : Nat) : Int)"
        elif ta != tb or ta not in ("Nat", "Int", "Ty"):
            self.err(f"comparison between {ta} and {tb}", n)
        return f"decide ({a} {sym} {b})", "Bool"

    def subscript(self, n, pre):
        base = n.value
        if isinstance(base, ast.Attribute) and base.attr == "shape":
            a, t = self.E(base, pre)
            if t == "Shape" and isinstance(n.slice, ast.Constant) and n.slice.value == 0: return f"({a}.shape0 h)", "Nat"
            if t == "Shape" and isinstance(n.slice, ast.Constant) and n.slice.value == 1:
                if not getattr(self, "try_err", None): self.err("shape[1] may raise IndexError outside a try block", n)
                v = self.fresh()
                pre.append(("matchopt:" + self.try_err, f"{a}.shape1?", v)); return v, "Nat"
            self.err("unsupported shape index", n)
        if isinstance(base, ast.Name) and base.id in self.env and self.env[base.id][1] == "ArrIn":
            sl = n.slice
            if isinstance(sl, ast.Tuple) and len(sl.elts) == 2 and isinstance(sl.elts[0], ast.Slice) and sl.elts[0].lower is None \
                    and sl.elts[0].upper is None and ast.unparse(sl.elts[1]) in ("np.newaxis", "None"):
                return f"{self.env[base.id][0]}.newaxis", "ArrIn"
            self.err("unsupported indexing of the caller's array", n)
        if _is_self(base, "_data") and self.cls == "sparse":
            k, tk = self.E(n.slice, pre)
            if tk != "Int": self.err("dict key is not the index", n)
            return f"(Res.obj (.whole (dictGet self.data.asDict {k})))", "Res"
        if _is_self(base, "_data") and self.cls == "dense":
            sl = n.slice
            if isinstance(sl, ast.Tuple) and len(sl.elts) == 2:
                k, tk = self.E(sl.elts[0], pre)
                if tk != "Int": self.err("row index is not the key", n)
                c = sl.elts[1]
                if isinstance(c, ast.Constant) and c.value == 0:
                    return f"(Res.byValue ((cellMat h self.data.asRef).getD {k}.toNat []))", "Res1"     # only under elemsize == 1
                if isinstance(c, ast.Slice) and c.lower is None and c.upper is None and c.step is None:
                    return f"(Res.obj (.row self.data.asRef {k}.toNat))", "Res"
            self.err("unsupported array indexing", n)
        if _is_self(base, "_attr") and self.cls == "cont":
            k, tk = self.E(n.slice, pre)
            if tk != "Str": self.err("attribute key is not the name", n)
            return f"(attrGet self.attr {k})", "Self"
        self.err("unsupported subscript", n)

    def _dtype_ok(self, call):
        kws = {k.arg: k.value for k in call.keywords}
        if set(kws) != {"dtype"} or ast.unparse(kws["dtype"]) != "self.type.dtype":
            self.err("np.full without dtype=self.type.dtype (the storage would not be of the attribute's type)", call)

    def call(self, n, pre):
        f = ast.unparse(n.func)
        A = n.args
        if f == "len" and len(A) == 1 and not n.keywords and isinstance(A[0], ast.Attribute) and A[0].attr == "shape":
            a, t = self.E(A[0], pre)
            if t == "Shape": return f"{a}.ndim", "Nat"
        if f == "type" and len(A) == 1 and isinstance(A[0], ast.Call) and isinstance(A[0].func, ast.Attribute) and A[0].func.attr == "item" \
                and not A[0].args and isinstance(A[0].func.value, ast.Subscript) and isinstance(A[0].func.value.value, ast.Name) \
                and A[0].func.value.value.id in self.env and self.env[A[0].func.value.value.id][1] == "ArrIn" \
                and ast.unparse(A[0].func.value.slice).replace(" ", "") in ("(0,0)", "0,0"):
            return f"{self.env[A[0].func.value.value.id][0]}.ty", "Ty"          # type(data[0,0].item()): the Python type of the items
        if isinstance(n.func, ast.Attribute) and n.func.attr == "astype" and isinstance(n.func.value, ast.Name) and n.func.value.id in self.env \
                and self.env[n.func.value.id][1] == "ArrIn" and len(A) == 1 and self.cls == "cont":
            kws = {k.arg: k.value for k in n.keywords}
            tgt = A[0]
            ok = (isinstance(tgt, ast.Attribute) and tgt.attr == "dtype" and isinstance(tgt.value, ast.Attribute) and tgt.value.attr == "type"
                  and isinstance(tgt.value.value, ast.Subscript) and _is_self(tgt.value.value.value, "_attr"))
            if not ok: self.err("astype to something else than the dtype of the attribute's type", n)
            if set(kws) != {"copy"} or not (isinstance(kws["copy"], ast.Constant) and kws["copy"].value is False):
                self.err("astype without copy=False", n)
            nm, tn = self.E(tgt.value.value.slice, pre)
            if tn != "Str": self.err("attribute key is not the name", n)
            v = self.fresh()
            pre.append(("lets", f"let {v} := astypeNoCopy h {self.env[n.func.value.id][0]} (attrGet self.attr {nm}).type\nlet h := {v}.1", v))
            return f"{v}.2", "ArrRef"
        if f == "len" and len(A) == 1 and not n.keywords:
            x = A[0]
            if isinstance(x, ast.Name) and x.id == "self" and self.cls == "cont": return "(contLen self)", "Nat"
            a, t = self.E(x, pre)
            if t in ("Scalars", "Elems"): return f"{a}.length", "Nat"
            if t == "Other": return f"{a}.elems.length", "Nat"
            self.err("len of an unsupported value", n)
        if f == "self._data.__len__" and not A and self.cls == "sparse": return "self.data.asDict.length", "Nat"
        if f == "list" and len(A) == 1:
            a, t = self.E(A[0], pre)
            if t == "InVal":
                v = self.fresh()
                pre.append(("match", f"pyList {a}", v)); return v, "Scalars"
            if t == "Other": return f"{a}.elems", "Elems"
            if t == "OptElems": return f"({a}.getD [])", "Elems"          # `list(data)`: a NEW list of the caller's elements
            self.err("list() of an unsupported value", n)
        if f == "type" and len(A) == 1:
            a, t = self.E(A[0], pre)
            fn = {"Scalar": "pyTypeS", "InVal": "pyType", "OptScalar": "pyTypeO"}.get(t)
            if fn is None: self.err("type() of an unsupported value", n)
            return f"({fn} {a})", "PyType"
        if f in ("Attribute.Type", "self.Type", "ArrayAttribute.Type", "_BaseAttribute.Type") and len(A) == 1:
            a, t = self.E(A[0], pre)
            if t == "Ty": return a, "Ty"
            if t == "PyType":
                v = self.fresh()
                pre.append(("match", f"attrType {a}", v)); return v, "Ty"
            self.err("Attribute.Type() of an unsupported value", n)
        if f in ("self._can_be_casted", "Attribute._can_be_casted") and len(A) == 2:
            a, ta = self.E(A[0], pre); b, tb = self.E(A[1], pre)
            if ta != "Ty" or tb != "Ty": self.err("_can_be_casted on non-types", n)
            return f"(Generated.C05.canCast {a} {b})", "Bool"
        if f == "np.full" and len(A) == 2:
            self._dtype_ok(n)
            d, td = self.E(A[1], pre)
            if td != "Dflt": self.err("np.full: the fill value is not self.default_value", n)
            if isinstance(A[0], ast.Tuple) and len(A[0].elts) == 2:
                r, tr = self.E(A[0].elts[0], pre); k, tk = self.E(A[0].elts[1], pre)
                if tr != "Nat" or tk != "Nat": self.err("np.full shape", n)
                return f"(npFull {r} {k} {d})", "Mat"
            k, tk = self.E(A[0], pre)
            if tk != "Nat": self.err("np.full shape", n)
            return f"(bcast {k} {d})", "Val"
        if f == "np.concatenate" and len(A) == 1 and isinstance(A[0], (ast.Tuple, ast.List)) and len(A[0].elts) == 2 and not n.keywords:
            a, ta = self.E(A[0].elts[0], pre); b, tb = self.E(A[0].elts[1], pre)
            if ta != "Mat" or tb != "Mat": self.err("np.concatenate of non-arrays", n)
            return f"({a} ++ {b})", "Mat"
        if f == "np.squeeze" and len(A) == 1:
            a, t = self.E(A[0], pre)
            if t != "Mat": self.err("np.squeeze of a non-array", n)
            return a, "Mat"
        if f == "Vec" and len(A) == 1 and not n.keywords:
            a, t = self.E(A[0], pre)
            if t == "Val": return a, "NewVec"
            if t == "Scalars": return f"(vecOf self.type {a})", "NewVec"
            self.err("Vec() of an unsupported value", n)
        if f == "int" and len(A) == 1:
            a, t = self.E(A[0], pre)
            if t == "OptNat": return f"({a}.getD 0)", "Nat"
            if t == "Nat": return a, "Nat"
            self.err("int() of an unsupported value", n)
        if f == "dict" and not A and not n.keywords: return "[]", "EmptyDict"
        if f == "isinstance" and len(A) == 2:
            a, t = self.E(A[0], pre)
            if t != "Other": self.err("isinstance on an unsupported value", n)
            k = ast.unparse(A[1])
            if isinstance(A[1], ast.Tuple) and all(isinstance(e, ast.Name) and e.id in ("list", "tuple", "set") for e in A[1].elts):
                order = [x for x in ("list", "tuple", "set") if x in {e.id for e in A[1].elts}]      # canonical order
                return "(" + " || ".join(f"({a}.isA .{x})" for x in order) + ")", "Bool"
            if k in ("list", "tuple", "set"): return f"({a}.isA .{k})", "Bool"
            if k == "DataContainer": return f"{a}.isCont", "Bool"
            self.err("isinstance against an unsupported class", n)
        if f in CTOR and self.cls == "cont":
            sig = self.ctor_sigs[f]
            vals = {}
            for p, a in zip(sig, A): vals[p] = a
            for kw in n.keywords:
                if kw.arg not in sig or kw.arg in vals: self.err("constructor keyword", n)
                vals[kw.arg] = kw.value
            if set(vals) != set(sig): self.err(f"constructor call does not pass {sorted(set(sig) - set(vals))}", n)
            args = []
            want = {"Attribute": ["Ty", "Nat", "OptScalar"], "ArrayAttribute": ["Ty", "Nat", "Nat", "OptScalar"]}[f]
            for p, w in zip(sig, want):
                a, t = self.E(vals[p], pre)
                if t != w: self.err(f"constructor argument {p} is a {t}, expected {w}", n)
                args.append(a)
            v = self.fresh()
            cls = "sparse" if f == "Attribute" else "dense"
            pre.append(("matchobj", f"{LEAN_OF[CTOR[f]]} {' '.join(args)} h {{ cls := .{cls} }}", v))
            return v, "Self"
        self.err("unsupported call", n)

    # ------------------------------------------------------------------ statements
    def emit_pre(self, pre, rest):
        """wrap `rest` (a Lean term) in the binders of `pre`"""
        out = rest
        for kind, rhs, v in reversed(pre):
            if kind == "match":
                out = f"match {rhs} with\n| .error e => .error e\n| .ok {v} =>\n{out}"
            elif kind == "matchobj":
                out = f"match {rhs} with\n| .error e => .error e\n| .ok (_, h, {v}) =>\n{out}"
            elif kind.startswith("matchopt:"):
                out = f"match {rhs} with\n| none => {kind[9:]}\n| some {v} =>\n{out}"
            elif kind == "lets":
                out = rhs + "\n" + out
            else:
                out = f"let {v} := {rhs}\n{out}"
        return out

    def ok(self, val):
        if self.check_mode: return ".ok ()"
        return f".ok ({val}, h, self)"

    def S(self, stmts):
        if not stmts:
            if self.check_mode: return ".ok ()"
            if self.ret != "Unit": self.err("falls off the end without returning a value")
            return self.ok("()")
        s, rest = stmts[0], stmts[1:]
        pre = []
        self.try_err = getattr(s, "_try_err", None)
        if isinstance(s, ast.Try):
            # try: <bindings / asserts> except Exception: raise E   — every failure inside the block becomes E
            if s.orelse or s.finalbody or len(s.handlers) != 1 or not (len(s.handlers[0].body) == 1 and isinstance(s.handlers[0].body[0], ast.Raise)):
                self.err("unsupported try block", s)
            ht = s.handlers[0].type
            if ht is not None and ast.unparse(ht) not in ("Exception", "BaseException"): self.err("handler does not catch every exception", s)
            err = self.raise_stmt(s.handlers[0].body[0])
            for st in s.body:
                if not isinstance(st, (ast.Assign, ast.Assert)): self.err("unsupported statement in a try block", st)
                st._try_err = err
            return self.S(s.body + rest)
        if isinstance(s, ast.Assert) and not self.try_err and isinstance(s.test, ast.Call) and ast.unparse(s.test.func) == "isinstance" \
                and len(s.test.args) == 2 and isinstance(s.test.args[0], ast.Name) and s.test.args[0].id in self.env \
                and self.env[s.test.args[0].id][1] == "OptAttrDict" and ast.unparse(s.test.args[1]) == "dict":
            return self.S(rest)          # a type assertion on a parameter the vocabulary already types as a dict
        if isinstance(s, ast.Assert):
            if not self.try_err: self.err("assert outside a try block", s)
            c, t = self.E(s.test, pre)
            if t != "Bool": self.err("assert of a non-boolean", s)
            return self.emit_pre(pre, f"if (!{c}) then\n  {self.try_err}\nelse\n" + self.S(rest))
        if isinstance(s, ast.Assign) and len(s.targets) == 1 and isinstance(s.targets[0], ast.Attribute) and s.targets[0].attr == "_data" \
                and isinstance(s.targets[0].value, ast.Subscript) and _is_self(s.targets[0].value.value, "_attr") and self.cls == "cont":
            # self._attr[name]._data = <array>: the storage field of the attribute OBJECT held by the dict
            nm, tn = self.E(s.targets[0].value.slice, pre)
            if tn != "Str": self.err("attribute key is not the name", s)
            a, t = self.E(s.value, pre)
            if t != "ArrRef": self.err(f"binds a {t} as storage of the attribute", s)
            return self.emit_pre(pre, f"let self := {{ self with attr := attrSet self.attr {nm} {{ (attrGet self.attr {nm}) with data := .array {a} }} }}\n" + self.S(rest))
        if isinstance(s, ast.Return):
            if self.check_mode: self.err("return inside a checking loop", s)
            return self.ret_stmt(s)
        if isinstance(s, ast.Raise):
            return self.raise_stmt(s)
        if isinstance(s, ast.If):
            c, t = self.E(s.test, pre)
            if t != "Bool": self.err("condition is not boolean", s.test)
            a = self.S(s.body + rest)
            b = self.S(s.orelse + rest)
            return self.emit_pre(pre, f"if {c} then\n{ind(a)}\nelse\n{b}")
        if isinstance(s, ast.Assign) and len(s.targets) == 1:
            return self.assign(s.targets[0], s.value, rest, s)
        if isinstance(s, ast.AugAssign) and isinstance(s.op, ast.Add) and _is_self(s.target, "_data") and self.cls == "cont":
            a, t = self.E(s.value, pre)
            if t != "Elems": self.err("`self._data +=` of an unsupported value", s)
            return self.emit_pre(pre, f"let self := {{ self with data := self.data ++ {a} }}\n" + self.S(rest))
        if isinstance(s, ast.Delete) and len(s.targets) == 1 and isinstance(s.targets[0], ast.Subscript) and _is_self(s.targets[0].value, "_attr"):
            k, tk = self.E(s.targets[0].slice, pre)
            if tk != "Str": self.err("del of an unsupported key", s)
            return self.emit_pre(pre, f"let self := {{ self with attr := attrDel self.attr {k} }}\n" + self.S(rest))
        if isinstance(s, ast.Expr) and isinstance(s.value, ast.Call):
            return self.call_stmt(s.value, rest)
        if isinstance(s, ast.For):
            return self.for_stmt(s, rest)
        self.err("unsupported statement", s)

    def ret_stmt(self, s):
        pre = []
        if s.value is None:
            if self.ret != "Unit": self.err("bare return in a function returning a value", s)
            return self.ok("()")
        if isinstance(s.value, ast.Name) and s.value.id == "self" and self.ret == "Unit":
            return self.ok("()")
        a, t = self.E(s.value, pre)
        if self.ret == "Res":
            if t == "Res": return self.emit_pre(pre, self.ok(a))
            if t == "Dflt":      # an immutable scalar: boxed in a fresh one-component cell nobody else can reach
                v = self.fresh()
                return self.emit_pre(pre, f"let {v} := allocVec h (Dflt.row1 {a})\nlet h := {v}.1\n" + self.ok(f"Res.obj (.whole {v}.2)"))
            if t == "NewVec":
                v = self.fresh()
                return self.emit_pre(pre, f"let {v} := allocVec h {a}\nlet h := {v}.1\n" + self.ok(f"Res.obj (.whole {v}.2)"))
            self.err(f"returns a {t}", s)
        if t != self.ret: self.err(f"returns a {t}, expected {self.ret}", s)
        return self.emit_pre(pre, self.ok(a))

    def raise_stmt(self, s):
        e = s.exc
        if isinstance(e, ast.Call):
            name = ast.unparse(e.func).split(".")[-1]
            if name in EXC: return f".error {EXC[name]}"
            if name == "Exception" and e.args:
                msg = e.args[0]
                if isinstance(msg, ast.JoinedStr) and msg.values and isinstance(msg.values[0], ast.Constant): msg = msg.values[0]
                txt = msg.value if isinstance(msg, ast.Constant) else (ast.unparse(msg.func.value).strip("'\"") if isinstance(msg, ast.Call) and isinstance(msg.func, ast.Attribute) else "")
                for k, v in EXC_MSG.items():
                    if isinstance(txt, str) and txt.startswith(k): return f".error {v}"
        self.err("unknown exception", s)

    def assign(self, tgt, val, rest, s):
        pre = []
        if isinstance(tgt, ast.Name):
            a, t = self.E(val, pre)
            if t in ("NewVec", "Res", "Res1", "EmptyDict"): self.err(f"local bound to a {t}", s)
            self.nloc += 1
            v = f"v{self.nloc}"
            old = self.env.get(tgt.id)
            self.env[tgt.id] = (v, t)
            out = self.emit_pre(pre, f"let {v} := {a}\n" + self.S(rest))
            if old is not None: self.env[tgt.id] = old
            return out
        if self.check_mode: self.err("state update inside a checking loop", s)
        if _is_self(tgt) and self.cls in ("sparse", "dense", "base"):
            if tgt.attr == "_data":
                a, t = self.E(val, pre)
                if t == "EmptyDict" and self.cls == "sparse":
                    return self.emit_pre(pre, "let self := { self with data := .dict [] }\n" + self.S(rest))
                if t == "Mat" and self.cls == "dense":
                    v = self.fresh()
                    return self.emit_pre(pre, f"let {v} := allocMat h {a}\nlet h := {v}.1\nlet self := {{ self with data := .array {v}.2 }}\n" + self.S(rest))
                self.err(f"`self._data =` a {t} in the {self.cls} class", s)
            if tgt.attr in SELF_STORE:
                fld, want = SELF_STORE[tgt.attr]
                a, t = self.E(val, pre)
                if t != want: self.err(f"`self.{tgt.attr} =` a {t}, expected {want}", s)
                return self.emit_pre(pre, f"let self := {{ self with {fld} := {a} }}\n" + self.S(rest))
            self.err("assignment to an unknown field", s)
        if _is_self(tgt) and self.cls == "cont":
            if tgt.attr == "_data" and ((isinstance(val, ast.List) and not val.elts) or ast.unparse(val) == "list()"):
                return "let self := { self with data := [] }\n" + self.S(rest)
            a, t = self.E(val, pre)
            if tgt.attr == "_data" and t == "Elems":
                return self.emit_pre(pre, f"let self := {{ self with data := {a} }}\n" + self.S(rest))
            if tgt.attr == "id" and t == "Str":
                return self.emit_pre(pre, f"let self := {{ self with id := {a} }}\n" + self.S(rest))
            if tgt.attr == "_attr" and t == "OptAttrDict":
                # the caller's dict object itself is adopted (no copy); the guard `is None` was taken just before
                return self.emit_pre(pre, f"let self := {{ self with attr := ({a}.getD []) }}\n" + self.S(rest))
            if tgt.attr == "_attr" and t == "EmptyDict":
                return "let self := { self with attr := [] }\n" + self.S(rest)
            self.err("assignment to an unknown container field", s)
        if isinstance(tgt, ast.Subscript) and _is_self(tgt.value, "_data") and self.cls in ("sparse", "dense"):
            k, tk = self.E(tgt.slice, pre)
            if tk != "Int": self.err("storage index is not the key", s)
            a, t = self.E(val, pre)
            if t == "NewVec": row = a
            elif t == "InVal": row = f"(scalarVal self.type {a})"
            else: self.err(f"stores a {t}", s)
            if self.cls == "sparse":
                v = self.fresh()
                body = (f"let {v} := allocVec h {row}\nlet h := {v}.1\n"
                        f"let self := {{ self with data := .dict (dinsert self.data.asDict {k} {v}.2) }}\n")
            else:
                body = f"let h := rowStore h self.data.asRef {k} {row}\n"
            return self.emit_pre(pre, body + self.S(rest))
        if isinstance(tgt, ast.Subscript) and _is_self(tgt.value, "_attr") and self.cls == "cont":
            k, tk = self.E(tgt.slice, pre)
            if tk != "Str": self.err("attribute key is not the name", s)
            a, t = self.E(val, pre)
            if t != "Self": self.err(f"binds a {t} as attribute", s)
            return self.emit_pre(pre, f"let self := {{ self with attr := attrSet self.attr {k} {a} }}\n" + self.S(rest))
        self.err("unsupported assignment", s)

    def call_stmt(self, c, rest):
        pre = []
        f = ast.unparse(c.func)
        if self.cls == "cont" and f == "self._data.append" and len(c.args) == 1:
            a, t = self.E(c.args[0], pre)
            if t != "Nat": self.err("append of an unsupported value", c)
            return f"let self := {{ self with data := self.data ++ [{a}] }}\n" + self.S(rest)
        if self.cls == "sparse" and f == "self._data.clear" and not c.args and not self.check_mode:
            # emptying the dict in place: nobody else holds the dict object, same as binding a new empty one
            return "let self := { self with data := .dict [] }\n" + self.S(rest)
        if f == "super().__init__" and self.cls == "cont" and self.qual == "DataContainer.__init__" and not c.keywords:
            args = []
            for x, w in zip(c.args, ["OptAttrDict", "Str"]):
                a, t = self.E(x, pre)
                if t != w: self.err(f"argument of the base constructor is a {t}, expected {w}", c)
                args.append(a)
            if len(args) != 2: self.err("base constructor arguments", c)
            return self.emit_pre(pre, f"match baseContInit {' '.join(args)} h self with\n| .error e => .error e\n| .ok (_, h, self) =>\n" + self.S(rest))
        if isinstance(c.func, ast.Attribute) and isinstance(c.func.value, ast.Name) and c.func.value.id == "self":
            m = c.func.attr
            owner = {"_check_default_value_type": "_BaseAttribute", "_check_out_of_bounds": "ArrayAttribute"}.get(m)
            if owner is None: self.err("call of an unknown method", c)
            if m == "_check_out_of_bounds" and self.cls != "dense": self.err("bounds check outside the dense class", c)
            args = []
            for x in c.args:
                a, t = self.E(x, pre); args.append(a)
            want = {"_check_default_value_type": [], "_check_out_of_bounds": ["Int"]}[m]
            if len(args) != len(want): self.err("wrong number of arguments", c)
            if self.check_mode: self.err("method call inside a checking loop", c)
            call = f"{LEAN_OF[owner + '.' + m]} {' '.join(args)} h self".replace("  ", " ")
            return self.emit_pre(pre, f"match {call} with\n| .error e => .error e\n| .ok (_, h, self) =>\n" + self.S(rest))
        self.err("unsupported call statement", c)

    def for_stmt(self, s, rest):
        pre = []
        if s.orelse: self.err("for/else", s)
        it = s.iter
        if self.cls == "cont" and isinstance(it, ast.Call) and ast.unparse(it.func) == "self._attr.values" and isinstance(s.target, ast.Name):
            if not (len(s.body) == 1 and isinstance(s.body[0], ast.Expr) and isinstance(s.body[0].value, ast.Call)):
                self.err("attribute loop body is not one method call", s)
            c = s.body[0].value
            if not (isinstance(c.func, ast.Attribute) and isinstance(c.func.value, ast.Name) and c.func.value.id == s.target.id
                    and c.func.attr in DISPATCH):
                self.err("attribute loop does not call a known method on the loop variable", s)
            args = []
            for x, w in zip(c.args, DISPATCH[c.func.attr][2]):
                a, t = self.E(x, pre)
                if t != w: self.err(f"argument is a {t}", c)
                args.append(a)
            if len(args) != len(DISPATCH[c.func.attr][2]): self.err("wrong number of arguments", c)
            v = self.fresh()
            body = (f"match forAttrs h self.attr (dispatch{c.func.attr.strip('_').capitalize()} {' '.join(args)}) with\n| .error e => .error e\n"
                    f"| .ok {v} =>\nlet h := {v}.1\nlet self := {{ self with attr := {v}.2 }}\n")
            return self.emit_pre(pre, body + self.S(rest))
        if self.cls == "sparse" and isinstance(it, ast.Call) and ast.unparse(it.func) == "self._data.items" and not it.args \
                and isinstance(s.target, ast.Tuple) and len(s.target.elts) == 2 and all(isinstance(e, ast.Name) for e in s.target.elts):
            # for i, x in self._data.items(): out[i,:] = x      (row writes into a LOCAL array, in dict order)
            ki, xi = s.target.elts[0].id, s.target.elts[1].id
            if not (len(s.body) == 1 and isinstance(s.body[0], ast.Assign) and len(s.body[0].targets) == 1):
                self.err("items loop body is not one row assignment", s)
            tg, val = s.body[0].targets[0], s.body[0].value
            ok = (isinstance(tg, ast.Subscript) and isinstance(tg.value, ast.Name) and tg.value.id in self.env and self.env[tg.value.id][1] == "Mat"
                  and isinstance(tg.slice, ast.Tuple) and len(tg.slice.elts) == 2 and isinstance(tg.slice.elts[0], ast.Name) and tg.slice.elts[0].id == ki
                  and isinstance(tg.slice.elts[1], ast.Slice) and tg.slice.elts[1].lower is None and tg.slice.elts[1].upper is None
                  and isinstance(val, ast.Name) and val.id == xi)
            if not ok: self.err("items loop body is not `out[i,:] = x`", s.body[0])
            arr = tg.value.id
            old_v = self.env[arr][0]
            self.nloc += 1
            nv = f"v{self.nloc}"
            self.env[arr] = (nv, "Mat")
            return (f"match forItems self.data.asDict {old_v} (fun acc k r => npRowAssign acc k (cellVec h r)) with\n| .error e => .error e\n"
                    f"| .ok {nv} =>\n" + self.S(rest))
        if isinstance(it, ast.Name) and it.id in self.env and self.env[it.id][1] == "Scalars" and isinstance(s.target, ast.Name):
            self.nloc += 1
            v = f"v{self.nloc}"
            old = self.env.get(s.target.id)
            self.env[s.target.id] = (v, "Scalar")
            cm = self.check_mode; self.check_mode = True
            b = self.S(s.body)
            self.check_mode = cm
            if old is not None: self.env[s.target.id] = old
            else: del self.env[s.target.id]
            return (f"match forE {self.env[it.id][0]} (fun {v} =>\n{ind(b, 4)}) with\n| .error e => .error e\n| .ok _ =>\n" + self.S(rest))
        self.err("unsupported loop", s)

    # ------------------------------------------------------------------ whole function
    def compile(self):
        body = _strip([Norm().visit(copy.deepcopy(x)) for x in self.node.body])
        for x in body: ast.fix_missing_locations(x)
        ps = "".join(f" ({a} : {LEAN_TY[t]})" for a, t in self.params)
        if self.pure:
            if not (len(body) == 1 and isinstance(body[0], ast.Return) and body[0].value is not None):
                self.err("expected a single `return <expression>`")
            pre = []
            a, t = self.E(body[0].value, pre)
            if pre or t != self.ret: self.err(f"returns a {t}, expected {self.ret}")
            hs = " (h : Heap)" if "h " in a or " h)" in a else ""
            return f"/-- `{self.qual}` -/\ndef {self.lean}{ps}{hs} (self : {self.state}) : {LEAN_TY[self.ret]} :=\n  {a}\n"
        extra = " (warnDup : Bool)" if self.qual.endswith(("create_attribute", "register_array_as_attribute")) else ""
        txt = self.S(body)
        return (f"/-- `{self.qual}` -/\ndef {self.lean}{extra}{ps} (h : Heap) (self : {self.state}) : "
                f"Except Err ({LEAN_TY[self.ret]} × Heap × {self.state}) :=\n{ind(txt)}\n")


def _ctor_sig(fn):
    return [a.arg for a in fn.args.args][1:]


def _default_value_property(tree):
    """`default_value` property: memo idiom  `if self._default_value is None: self._default_value = E ; return self._default_value`
    where E = self.type.default_value(self.elemsize) reads only fields that are never rebound outside `__init__`."""
    fn = T.find_def(tree, "_BaseAttribute.default_value")
    body = _strip([Norm().visit(copy.deepcopy(x)) for x in fn.body])
    ok = (len(body) == 2 and isinstance(body[0], ast.If) and not body[0].orelse and len(body[0].body) == 1
          and ast.unparse(body[0].test) == "self._default_value is None"
          and isinstance(body[0].body[0], ast.Assign) and ast.unparse(body[0].body[0].targets[0]) == "self._default_value"
          and ast.unparse(body[0].body[0].value) == "self.type.default_value(self.elemsize)"
          and isinstance(body[1], ast.Return) and ast.unparse(body[1].value) == "self._default_value")
    if not ok: raise TranslateError("_BaseAttribute.default_value: memo idiom not recognised: " + " ; ".join(ast.unparse(b)[:80] for b in body))
    # the memoised expression only reads `type` and `elemsize`: they must not be rebound outside the constructors
    for cls in ("_BaseAttribute", "Attribute", "ArrayAttribute"):
        c = T.find_def(tree, cls)
        for m in c.body:
            if isinstance(m, ast.FunctionDef) and m.name != "__init__":
                for x in ast.walk(m):
                    if isinstance(x, (ast.Assign, ast.AugAssign, ast.AnnAssign)):
                        tg = x.targets if isinstance(x, ast.Assign) else [x.target]
                        for t in tg:
                            if _is_self(t) and t.attr in ("type", "elemsize"):
                                raise TranslateError(f"{cls}.{m.name} rebinds self.{t.attr}: the memoised default would be stale")
    # Type.default_value: `if n==1: <table>` then `return Vec([self.default_value(1)]*n)`
    tv = T.find_def(tree, "_BaseAttribute.Type.default_value")
    tb = _strip([Norm().visit(copy.deepcopy(x)) for x in tv.body])
    okv = (len(tb) == 2 and isinstance(tb[0], ast.If) and ast.unparse(tb[0].test) in ("n == 1", "1 == n") and not tb[0].orelse
           and isinstance(tb[1], ast.Return) and ast.unparse(tb[1].value).replace(" ", "") in ("Vec([self.default_value(1)]*n)", "Vec(n*[self.default_value(1)])", "Vec([self.default_value()]*n)"))
    if not okv: raise TranslateError("Type.default_value: `if n==1: … ; return Vec([self.default_value(1)]*n)` not recognised")
    return ("/-- `Type.default_value(n)`: the scalar of the table (`Generated.C05.zero`) for n = 1, else `Vec([default_value(1)]*n)` -/\n"
            "def typeDefaultValue (t : Ty) (n : Nat) : Dflt :=\n"
            "  if n = 1 then .scalar ((Generated.C05.zero t).getD (.b false))\n"
            "  else .vector (List.replicate n ((Generated.C05.zero t).getD (.b false)))\n\n"
            "/-- the `default_value` property (memoised; the memo only reads `type` and `elemsize`, never rebound after `__init__`) -/\n"
            "def defaultValue (self : Self) : Dflt :=\n"
            "  match self.dv with\n  | none => typeDefaultValue self.type self.elemsize\n  | some d => .scalar d\n")


def _type_dtype(tree):
    """`Type.dtype` property: `if self == Attribute.Type.String: return "<U32"` ; `return self.value`"""
    fn = T.find_def(tree, "_BaseAttribute.Type.dtype")
    b = _strip([Norm().visit(copy.deepcopy(x)) for x in fn.body])
    MEM = {"Bool": "bool", "Int": "int", "Float": "float", "Complex": "complex", "String": "str"}
    if len(b) != 2 or not isinstance(b[0], ast.If) or b[0].orelse or len(b[0].body) != 1 or not isinstance(b[0].body[0], ast.Return):
        raise TranslateError("Type.dtype: `if self == <member>: return <dtype>` ; `return self.value` not recognised")
    t = b[0].test
    if not (isinstance(t, ast.Compare) and len(t.ops) == 1 and isinstance(t.ops[0], ast.Eq)): raise TranslateError("Type.dtype: guard")
    sides = [ast.unparse(t.left), ast.unparse(t.comparators[0])]
    mem = next((x for x in sides if x != "self"), None)
    if "self" not in sides or mem is None or mem.split(".")[-1] not in MEM or ".Type." not in "." + mem:
        raise TranslateError(f"Type.dtype: guard is not `self == Attribute.Type.<member>`: {sides}")
    rv = b[0].body[0].value
    if not (isinstance(rv, ast.Constant) and rv.value == "<U32"): raise TranslateError(f"Type.dtype: the special dtype is not '<U32': {ast.unparse(rv)}")
    if not (isinstance(b[1], ast.Return) and ast.unparse(b[1].value) == "self.value"): raise TranslateError("Type.dtype: default branch is not `return self.value`")
    return ("/-- `Type.dtype` (property): the fixed-width unicode dtype for the guarded member, the member's own value otherwise -/\n"
            f"def typeDtype (t : Ty) : DType :=\n  if t = .{MEM[mem.split('.')[-1]]} then .u32 else .ofType t\n")


def translate_sites():
    """-> (sites, lean text or None, {qualname: ok})"""
    sites, chunks, status = [], [], {}
    try:
        atree, _ = T.load(ATTR_FILE)
        ctree, _ = T.load(CONT_FILE)
    except Exception as e:  # noqa
        return [{"site": "C05Src: load", "ok": False, "detail": repr(e)}], None, {}
    ctor_sigs = {}

    def one(name, fn):
        rec = T.site(name, fn)
        sites.append(rec)
        return rec["ok"]

    def dv():
        chunks.append(_default_value_property(atree)); return "memo idiom; Type.default_value vector branch"
    status["_BaseAttribute.default_value"] = one("mesh_attributes.py:default_value property (body)", dv)
    status["_BaseAttribute.Type.default_value"] = status["_BaseAttribute.default_value"]

    def dt():
        chunks.append(_type_dtype(atree)); return "guarded member -> '<U32', else self.value"
    status["_BaseAttribute.Type.dtype"] = one("mesh_attributes.py:Type.dtype (body)", dt)

    def mk(tree, fileshort, spec):
        qual, lean, cls, ptypes, ret, pure = spec

        def run():
            node = T.find_def(tree, qual)
            f = Fn(qual, lean, cls, ptypes, ret, pure, node, ctor_sigs)
            txt = f.compile()
            chunks.append(txt)
            if qual.endswith("__init__"): ctor_sigs[qual.split(".")[0]] = _ctor_sig(node)
            return f"{len(txt.splitlines()) - 2} lines"
        status[qual] = one(f"{fileshort}:{qual} (body)", run)

    for spec in FUNCS:
        mk(atree, "mesh_attributes.py", spec)
        if spec[0] == "ArrayAttribute._expand":
            chunks.append("/-- `attr._expand(n)`: dynamic dispatch on the class of the attribute object -/\n"
                          "def dispatchExpand (a0 : Nat) (h : Heap) (a : Self) : Except Err (Unit × Heap × Self) :=\n"
                          "  match a.cls with\n  | .sparse => sparseExpand a0 h a\n  | .dense => denseExpand a0 h a\n")
    for spec in CONT_FUNCS:
        mk(ctree, "data_container.py", spec)

    # the two __setitem__ bodies must also agree with each other after the bounds guard (kept from round 1)
    if all(r["ok"] for r in sites):
        body = ("import Mouette.Model.AttrSource\nimport Mouette.Generated.C05\nnamespace Mouette.Generated.C05Src\n"
                "open Mouette.Attr Mouette.AttrSrc\nset_option linter.unusedVariables false\n\n" + "\n".join(chunks) + "\nend Mouette.Generated.C05Src\n")
        return sites, body, status
    return sites, None, status
