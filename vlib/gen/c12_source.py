"""C12 translated BODIES of `mouette/geometry/aabb.py` (class AABB): Python `ast` -> Lean (lean/Mouette/Generated/C12Box.lean),
re-extracted on every run from $MOUETTE_REPO.  Vocabulary: lean/Mouette/Model/BoxSource.lean; bridges to the box algebra of
Model/AABB.lean: Props/C12S.lean.

Every method is straight-line code with guards; it is read statement by statement:
  `if c: raise ..`  ->  `if c then none else ..` (the definition then returns an `Option`);  `if c: return e`;  `x = e`;
  `self._p1 -= e` / `self._p2 += e` (the new bounds of the box: `pad` returns the updated box);  `check_argument(..)` with a
  literal list of allowed strings -> membership guard;  `return e`;  `isinstance(pad, float)` is resolved statically (the method is
  compiled once for a float argument, once for a vector argument).
Expression forms: see the table of Model/BoxSource.lean.  `AABB(lo, hi)` inside a method is `Box.mk lo hi` (the size check
of the constructor is translated on its own: `ctor`); `np.array(x)` / `Vec(x)` / `np.copy(x)` are value-level identities - whether
the constructor COPIES its arguments is extracted as the flag `ctorCopies`.
Tolerated respellings: renamed locals; `a > b` = `b < a`, `a >= b` = `b <= a`, `not a == b` = `a != b`; `np.maximum`/`np.minimum`
of two operands vs `np.max((a, b), axis=0)`/`np.min(..)`; `self.mini` vs `self._p1`, `self.maxi` vs `self._p2`; `x.size` vs `len(x)`;
docstrings / annotations.  Anything else raises TranslateError -> broken obligation -> failing-input search (props/c12.py)."""
import ast
import copy

from .. import translate as T
from ..translate import TranslateError
from .c11_source import Norm, _strip, _name, _call, ind

FILE = "mouette/geometry/aabb.py"
TY = {"box": "Box", "v": "V", "pt": "List Rat", "pts": "List (List Rat)", "bools": "List Bool", "bool": "Bool", "nat": "Nat",
      "rat": "Rat", "str": "String"}


class M:
    """one method being compiled; `env`: python name -> type tag"""

    def __init__(self, cls, pyname, params, static_float=None):
        fn = [f for f in cls.body if isinstance(f, ast.FunctionDef) and f.name == pyname]
        if not fn: raise TranslateError(f"AABB.{pyname} not found")
        self.fn = fn[0]
        self.py = pyname
        names = [a.arg for a in self.fn.args.args]
        deco = [ast.unparse(d) for d in self.fn.decorator_list]
        if "staticmethod" not in deco:
            names = names[1:]
            if "classmethod" not in deco: params = dict(params); self.selfname = self.fn.args.args[0].arg
        self.names = names
        if len(names) != len(params): raise TranslateError(f"AABB.{pyname}: parameters {names}, expected {len(params)}")
        self.env = {}
        if "staticmethod" not in deco and "classmethod" not in deco: self.env[self.fn.args.args[0].arg] = "box"
        for nme, ty in zip(names, params.values() if isinstance(params, dict) else params): self.env[nme] = ty
        self.static_float = static_float     # name whose `isinstance(.., float)` is resolved to this boolean
        self.partial = any(isinstance(n, ast.Raise) for n in ast.walk(self.fn)) or \
            any(_call(n, "check_argument") for n in ast.walk(self.fn)) or \
            any((_call(n) or "") in ("AABB.intersection", "AABB.union") for n in ast.walk(self.fn))
        self.box_update = None

    def v(self, nme): return "v_" + nme

    def binders(self):
        return " ".join(f"({self.v(n)} : {TY[t]})" for n, t in self.env0.items())

    # -- expressions -----------------------------------------------------------------------------------------------
    def as_v(self, t, ty):
        if ty == "v": return t
        if ty == "pt": return f"(ofPt {t})"
        raise TranslateError(f"AABB.{self.py}: a value of type {ty} where a bound array is expected")

    def E(self, n):
        if isinstance(n, ast.Constant):
            if isinstance(n.value, bool): return ("true" if n.value else "false"), "bool"
            if isinstance(n.value, int): return str(n.value), "nat"
            if isinstance(n.value, float):
                from fractions import Fraction
                f = Fraction(str(n.value))
                return (f"(({f.numerator} : Rat) / {f.denominator})" if f.denominator != 1 else f"({f.numerator} : Rat)"), "rat"
            if isinstance(n.value, str): return f'"{n.value}"', "str"
        if isinstance(n, ast.Name):
            if n.id not in self.env: raise TranslateError(f"AABB.{self.py}: unknown name `{n.id}`")
            return self.v(n.id), self.env[n.id]
        if isinstance(n, ast.Attribute):
            if ast.unparse(n) in ("np.inf", "numpy.inf", "math.inf"): return "pinf", "einf"
            b, ty = self.E(n.value)
            if ty == "box" and n.attr in ("_p1", "mini"): return f"{b}.lo", "v"
            if ty == "box" and n.attr in ("_p2", "maxi"): return f"{b}.hi", "v"
            if ty == "box" and n.attr == "dim": return f"(dim {b})", "nat"
            if ty in ("v", "pt") and n.attr == "size": return f"{b}.length", "nat"
            raise TranslateError(f"AABB.{self.py}: attribute `.{n.attr}` of a value of type {ty}")
        if isinstance(n, ast.UnaryOp) and isinstance(n.op, ast.USub):
            if ast.unparse(n.operand) in ("np.inf", "numpy.inf", "math.inf"): return "ninf", "einf"
            t, ty = self.E(n.operand)
            if ty == "rat": return f"(-{t})", "rat"
        if isinstance(n, ast.UnaryOp) and isinstance(n.op, ast.Not):
            t, ty = self.E(n.operand)
            if ty == "bool": return f"(!{t})", "bool"
        if isinstance(n, ast.BoolOp):
            parts = [self.E(x) for x in n.values]
            if all(ty == "bool" for _, ty in parts):
                return "(" + (" && " if isinstance(n.op, ast.And) else " || ").join(t for t, _ in parts) + ")", "bool"
        if isinstance(n, ast.Subscript):
            if ast.unparse(n.value).endswith(".shape") and isinstance(n.slice, ast.Constant) and n.slice.value == 1:
                p, pty = self.E(n.value.value)
                if pty == "pts": return f"({p}.headD []).length", "nat"
            b, ty = self.E(n.value)
            if ty == "v":
                i, ity = self.E(n.slice)
                if ity == "nat": return f"({b}.getD {i} (fin 0))", "eq"
            raise TranslateError(f"AABB.{self.py}: subscript `{ast.unparse(n)[:60]}`")
        if isinstance(n, ast.Compare) and len(n.ops) == 1:
            op = type(n.ops[0])
            a, aty = self.E(n.left); b, bty = self.E(n.comparators[0])
            if {aty, bty} <= {"v", "pt"} and "v" in (aty, bty) and op in (ast.Lt, ast.LtE):
                return f"({'vlt' if op is ast.Lt else 'vle'} {self.as_v(a, aty)} {self.as_v(b, bty)})", "bools"
            sym = {ast.Lt: "<", ast.LtE: "≤", ast.Eq: "=", ast.NotEq: "≠"}.get(op)
            if sym and aty == bty and aty in ("nat", "eq", "rat"): return f"decide ({a} {sym} {b})", "bool"
            raise TranslateError(f"AABB.{self.py}: comparison `{ast.unparse(n)[:60]}` of {aty} with {bty}")
        if isinstance(n, ast.BinOp):
            # (p1 + p2) / 2
            if isinstance(n.op, ast.Div) and isinstance(n.right, ast.Constant) and n.right.value == 2 and isinstance(n.left, ast.BinOp) \
                    and isinstance(n.left.op, ast.Add):
                a, aty = self.E(n.left.left); b, bty = self.E(n.left.right)
                if aty == "v" and bty == "v": return f"(vmid {a} {b})", "pt"
            a, aty = self.E(n.left); b, bty = self.E(n.right)
            if isinstance(n.op, ast.Sub):
                if aty == "v" and bty == "pt": return f"(vsubPt {a} {b})", "v"
                if aty == "pt" and bty == "v": return f"(ptSubV {a} {b})", "v"
                if aty == "v" and bty == "v": return f"(vsubFin {a} {b})", "pt"
                if aty == "pt" and bty == "pt": return f"(psub {a} {b})", "pt"
            if isinstance(n.op, ast.Add):
                if aty == "v" and bty == "pt": return f"(vaddPt {a} {b})", "v"
                if aty == "pt" and bty == "pt": return f"(padd {a} {b})", "pt"
            raise TranslateError(f"AABB.{self.py}: arithmetic `{ast.unparse(n)[:60]}` on {aty}, {bty}")
        if isinstance(n, ast.ListComp) and len(n.generators) == 1 and not n.generators[0].ifs and _name(n.generators[0].target) \
                and _call(n.generators[0].iter, "range") and len(n.generators[0].iter.args) == 1:
            g = n.generators[0]
            cnt, cty = self.E(g.iter.args[0])
            if cty != "nat": raise TranslateError(f"AABB.{self.py}: range of a {cty}")
            saved = dict(self.env)
            self.env[g.target.id] = "nat"
            e, ety = self.E(n.elt)
            self.env = saved
            if ety != "bool": raise TranslateError(f"AABB.{self.py}: comprehension of {ety}")
            return f"((List.range {cnt}).map (fun {self.v(g.target.id)} => {e}))", "bools"
        if isinstance(n, ast.Call):
            return self.call(n)
        raise TranslateError(f"AABB.{self.py}: expression `{ast.unparse(n)[:80]}` is not understood")

    def pair_axis0(self, n):
        """`f((a, b), axis=0)` -> (a, b)"""
        kw = {k.arg: ast.unparse(k.value) for k in n.keywords}
        if len(n.args) == 1 and isinstance(n.args[0], (ast.Tuple, ast.List)) and len(n.args[0].elts) == 2 and kw == {"axis": "0"}:
            return n.args[0].elts
        return None

    def call(self, n):
        d = _call(n) or ""
        short = d.replace("numpy.", "np.")
        args = n.args
        if short in ("Vec", "np.array", "np.asarray", "np.copy") and len(args) == 1:
            kw = {k.arg for k in n.keywords}
            if kw <= {"dtype", "copy"}: return self.E(args[0])
        if short in ("np.maximum", "np.minimum") and len(args) == 2 and not n.keywords:
            a, aty = self.E(args[0]); b, bty = self.E(args[1])
            fn = "vmax" if short == "np.maximum" else "vmin"
            if short == "np.maximum" and bty in ("rat", "nat") and b in ("(0 : Rat)", "0"):
                if aty == "v": return f"(vmax0 {a})", "v"
                if aty == "pt": return f"(clamp0 {a})", "pt"
            if "v" in (aty, bty) and {aty, bty} <= {"v", "pt"}: return f"({fn} {self.as_v(a, aty)} {self.as_v(b, bty)})", "v"
        if short in ("np.max", "np.min"):
            pr = self.pair_axis0(n)
            if pr:
                a, aty = self.E(pr[0]); b, bty = self.E(pr[1])
                if aty == "v" and bty == "v": return f"({'vmax' if short == 'np.max' else 'vmin'} {a} {b})", "v"
            kw = {k.arg: ast.unparse(k.value) for k in n.keywords}
            if len(args) == 1 and kw == {"axis": "0"}:
                a, aty = self.E(args[0])
                if aty == "pts": return f"({'colMax' if short == 'np.max' else 'colMin'} ({a}.headD []) {a}.tail)", "pt"
        if short == "np.full" and len(args) == 2 and not n.keywords:
            a, aty = self.E(args[0]); b, bty = self.E(args[1])
            if aty == "nat" and bty == "rat": return f"(full {a} {b})", "pt"
            if aty == "nat" and bty == "einf": return f"(List.replicate {a} {b})", "v"
        if short in ("np.zeros", "np.ones") and len(args) == 1:
            kw = {k.arg: ast.unparse(k.value) for k in n.keywords}
            a, aty = self.E(args[0])
            if aty == "nat" and set(kw) <= {"dtype"}: return f"(full {a} ({0 if short == 'np.zeros' else 1} : Rat))", "pt"
        if short in ("np.all", "np.any") and len(args) == 1 and not n.keywords:
            a, aty = self.E(args[0])
            if aty == "bools": return f"({'ball' if short == 'np.all' else 'bany'} {a})", "bool"
        if short == "len" and len(args) == 1:
            a, aty = self.E(args[0])
            if aty in ("v", "pt"): return f"{a}.length", "nat"
        if short == "AABB" and len(args) == 2 and not n.keywords:
            a, aty = self.E(args[0]); b, bty = self.E(args[1])
            return f"(Box.mk {self.as_v(a, aty)} {self.as_v(b, bty)})", "box"
        if short in ("AABB.intersection", "AABB.union") and len(args) == 2 and not n.keywords:
            a, aty = self.E(args[0]); b, bty = self.E(args[1])
            if aty == "box" and bty == "box": return f"({'inter' if short.endswith('intersection') else 'union'} {a} {b})", "obox"
        if short == "norm" and len(args) == 2 and not n.keywords:
            a, aty = self.E(args[0]); b, bty = self.E(args[1])
            if aty == "v" and bty == "str": return f"(normOf {b} {a})", "eq"
        if short == "isinstance" and len(args) == 2 and _name(args[0]) and ast.unparse(args[1]) == "float" and self.static_float \
                and args[0].id in self.static_float:
            return ("true" if self.static_float[args[0].id] else "false"), "static"
        if isinstance(n.func, ast.Attribute) and n.func.attr in ("all", "any") and not args:
            a, aty = self.E(n.func.value)
            if aty == "bools": return f"({'ball' if n.func.attr == 'all' else 'bany'} {a})", "bool"
        if isinstance(n.func, ast.Attribute) and n.func.attr == "contains_point" and len(args) == 1:
            b, bty = self.E(n.func.value); a, aty = self.E(args[0])
            if bty == "box" and aty == "pt": return f"(containsPoint {b} {a})", "obool"
        raise TranslateError(f"AABB.{self.py}: call `{ast.unparse(n)[:80]}` is not understood")

    # -- statements ------------------------------------------------------------------------------------------------
    def wrap(self, t):
        return f"some {t}" if self.partial else t

    def block(self, stmts):
        if not stmts:
            if self.box_update is not None:
                b = self.selfbox
                return self.wrap(f"(Box.mk {self.box_update.get('lo', b + '.lo')} {self.box_update.get('hi', b + '.hi')})")
            raise TranslateError(f"AABB.{self.py}: falls off the end without a return")
        st, rest = stmts[0], stmts[1:]
        if isinstance(st, ast.Return):
            t, ty = self.E(st.value)
            if ty in ("obox", "obool"):
                return t if self.partial else (_ for _ in ()).throw(TranslateError(f"AABB.{self.py}: partial call in a total method"))
            if ty == "bools": raise TranslateError(f"AABB.{self.py}: returns an array of booleans")
            return self.wrap(t)
        if isinstance(st, ast.Expr) and _call(st.value, "check_argument"):
            a = st.value.args
            if len(a) == 4 and isinstance(a[3], ast.List) and all(isinstance(e, ast.Constant) and isinstance(e.value, str) for e in a[3].elts) and _name(a[1]):
                lst = "[" + ", ".join(f'"{e.value}"' for e in a[3].elts) + "]"
                return f"if !(({lst} : List String).contains {self.v(a[1].id)}) then none else\n" + self.block(rest)
            raise TranslateError(f"AABB.{self.py}: `{ast.unparse(st)[:60]}`")
        if isinstance(st, ast.If):
            body, orelse = _strip(st.body), _strip(st.orelse)
            c, cty = self.E(st.test)
            if cty == "static":
                saved = dict(self.env)
                taken = body if c == "true" else orelse
                return self.block(taken + rest)
            if cty == "obool":
                if not (len(body) == 1 and isinstance(body[0], ast.Return) and not orelse): raise TranslateError(f"AABB.{self.py}: `if <partial call>`")
                t, ty = self.E(body[0].value)
                return (f"match {c} with\n| none => none\n| some t0 =>\nif t0 then {self.wrap(self.as_v(t, ty) if ty == 'pt' else t)} else\n" + self.block(rest))
            if cty != "bool": raise TranslateError(f"AABB.{self.py}: condition of type {cty}")
            if len(body) == 1 and isinstance(body[0], ast.Raise) and not orelse:
                return f"if {c} then none else\n" + self.block(rest)
            if body and isinstance(body[-1], ast.Return) and orelse and isinstance(orelse[-1], ast.Return) and not rest:
                saved = dict(self.env)
                a = self.block(body); self.env = dict(saved)
                b = self.block(orelse); self.env = saved
                return f"if {c} then (\n{ind(a)}\n) else (\n{ind(b)}\n)"
            raise TranslateError(f"AABB.{self.py}: `if {ast.unparse(st.test)[:40]}` has a shape that is not understood")
        if isinstance(st, ast.Assign) and len(st.targets) == 1 and _name(st.targets[0]):
            t, ty = self.E(st.value)
            self.env[st.targets[0].id] = ty
            return f"let {self.v(st.targets[0].id)} := {t}\n" + self.block(rest)
        if isinstance(st, ast.AugAssign) and isinstance(st.target, ast.Attribute) and _name(st.target.value) \
                and self.env.get(st.target.value.id) == "box" and st.target.attr in ("_p1", "_p2") and isinstance(st.op, (ast.Add, ast.Sub)):
            which = "lo" if st.target.attr == "_p1" else "hi"
            self.selfbox = self.v(st.target.value.id)
            if self.box_update is None: self.box_update = {}
            cur = self.box_update.get(which, f"{self.selfbox}.{which}")
            t, ty = self.E(st.value)
            if ty != "pt": raise TranslateError(f"AABB.{self.py}: in-place update with a value of type {ty}")
            self.box_update[which] = f"v_new_{which}"
            return f"let v_new_{which} := ({'vsubPt' if isinstance(st.op, ast.Sub) else 'vaddPt'} {cur} {t})\n" + self.block(rest)
        raise TranslateError(f"AABB.{self.py}: statement `{ast.unparse(st)[:80]}` is not understood")

    def compile(self, lean, ret, doc=None):
        self.env0 = dict(self.env)
        fn = Norm().visit(copy.deepcopy(self.fn)); ast.fix_missing_locations(fn)
        body = _strip(fn.body)
        txt = self.block(body)
        rty = f"Option {ret}" if self.partial else ret
        return f"/-- `AABB.{self.py}`{doc or ''} -/\ndef {lean} {self.binders()} : {rty} :=\n{ind(txt)}\n"


def compile_ctor(cls):
    fn = [f for f in cls.body if isinstance(f, ast.FunctionDef) and f.name == "__init__"]
    if not fn: raise TranslateError("AABB.__init__ not found")
    fn = fn[0]
    names = [a.arg for a in fn.args.args]
    if len(names) != 3: raise TranslateError(f"AABB.__init__: parameters {names}")
    body = _strip(Norm().visit(copy.deepcopy(fn)).body)
    copies = {}
    guard = None
    for st in body:
        if isinstance(st, ast.Assign) and isinstance(st.targets[0], ast.Attribute) and st.targets[0].attr in ("_p1", "_p2"):
            src = ast.unparse(st.value)
            arg = names[1] if st.targets[0].attr == "_p1" else names[2]
            if arg not in src: raise TranslateError(f"AABB.__init__: `{ast.unparse(st)[:60]}`")
            copies[st.targets[0].attr] = any(f"{c}({arg}" in src.replace(" ", "") for c in ("np.array", "numpy.array", "np.copy", "numpy.copy")) \
                and "copy=False" not in src.replace(" ", "")
        elif isinstance(st, ast.If) and len(st.body) == 1 and isinstance(st.body[0], ast.Raise) and not st.orelse:
            t = ast.unparse(st.test).replace(" ", "")
            if t in ("self._p1.size!=self._p2.size", "self._p2.size!=self._p1.size", "len(self._p1)!=len(self._p2)"): guard = "≠"
            else: raise TranslateError(f"AABB.__init__: guard `{ast.unparse(st.test)[:60]}`")
        else:
            raise TranslateError(f"AABB.__init__: statement `{ast.unparse(st)[:60]}`")
    if set(copies) != {"_p1", "_p2"} or guard is None: raise TranslateError("AABB.__init__: expected the two bound assignments and the size guard")
    c = copies["_p1"] and copies["_p2"]
    return (f"/-- `AABB.__init__`: the bounds are COPIES of the caller's arrays (so that `pad` cannot reach them) -/\n"
            f"def ctorCopies : Bool := {'true' if c else 'false'}\n\n"
            f"/-- `AABB.__init__`: size guard -/\ndef ctor (v_p_min v_p_max : V) : Option Box :=\n"
            f"  if decide (v_p_min.length ≠ v_p_max.length) then none else\n  some (Box.mk v_p_min v_p_max)\n"), c


HEADER = ("import Mouette.Model.BoxSource\nset_option linter.unusedVariables false\nnamespace Mouette.Generated.C12Box\n"
          "open Mouette.AABB Mouette.AABB.EQ Mouette.BoxS\n\n")

# lean name, python name, parameter types (after self/cls), return type, static-float resolution
METHODS = [
    ("dim", "dim", {}, "Nat", None), ("mini", "mini", {}, "V", None), ("maxi", "maxi", {}, "V", None),
    ("infinite", "infinite", {"dim": "nat"}, "Box", None),
    ("unitCube", "unit_cube", {"dim": "nat", "centered": "bool"}, "Box", None),
    ("ofPoints", "of_points", {"points": "pts", "padding": "rat"}, "Box", None),
    ("span", "span", {}, "List Rat", None), ("center", "center", {}, "List Rat", None),
    ("inter", "intersection", {"b1": "box", "b2": "box"}, "Box", None),
    ("union", "union", {"b1": "box", "b2": "box"}, "Box", None),
    ("doIntersect", "do_intersect", {"b1": "box", "b2": "box"}, "Bool", None),
    ("andOp", "__and__", {"other": "box"}, "Box", None), ("orOp", "__or__", {"other": "box"}, "Box", None),
    ("padFloat", "pad", {"pad": "rat"}, "Box", {"pad": True}), ("padVec", "pad", {"pad": "pt"}, "Box", {"pad": False}),
    ("containsPoint", "contains_point", {"pt": "pt"}, "Bool", None),
    ("project", "project", {"pt": "pt"}, "V", None),
    ("distance", "distance", {"pt": "pt", "which": "str"}, "EQ", None),
    ("isEmpty", "is_empty", {}, "Bool", None),
]


def translate():
    sites, chunks = [], []
    try:
        tree, _ = T.load(FILE)
        cls = T.find_def(tree, "AABB")
    except Exception as e:  # noqa
        T.write_generated("C12Box", "namespace Mouette.Generated.C12Box\nend Mouette.Generated.C12Box\n", HEADER.split("namespace")[0])
        return [{"site": "aabb.py: class AABB", "ok": False, "detail": f"{type(e).__name__}: {e}"}]

    def s_ctor():
        txt, c = compile_ctor(cls)
        chunks.append(txt)
        return f"size guard; copies its arguments: {c}"
    sites.append(T.site("aabb.py: AABB.__init__ (body)", s_ctor))
    for lean, py, params, ret, sf in METHODS:
        def run(lean=lean, py=py, params=params, ret=ret, sf=sf):
            m = M(cls, py, params, sf)
            if py == "of_points":
                # the shape guard `len(points.shape) != 2` is about the nesting depth of the argument (always 2 for a list of points)
                m.fn = copy.deepcopy(m.fn)
                m.fn.body = [st for st in m.fn.body if not (isinstance(st, ast.If) and ".shape" in ast.unparse(st.test) and any(isinstance(x, ast.Raise) for x in st.body))]
                m.partial = False
            chunks.append(m.compile(lean, ret, " (float argument)" if sf and sf.get("pad") else " (vector argument)" if sf else None))
            return "body compiled"
        sites.append(T.site(f"aabb.py: AABB.{py} (body{' as ' + lean if py == 'pad' else ''})", run))
    body = "\n".join(chunks) + "\nend Mouette.Generated.C12Box\n"
    T.write_generated("C12Box", body, HEADER)
    return sites


# ------------------------------------------------------------------------------------------------------------------
# mouette/utils/maths.py: principal_angle, angle_diff, roots -> lean/Mouette/Generated/C12Maths.lean
# ------------------------------------------------------------------------------------------------------------------
MATHS_FILE = "mouette/utils/maths.py"
MATHS_HEADER = ("import Mouette.Model.FloatOps\nset_option linter.unusedVariables false\nnamespace Mouette.Generated.C12Maths\nopen Mouette\n\n"
                "/-! The bodies of the angle utilities of `mouette/utils/maths.py`, over ANY number type `α` with the operations\n"
                "they use.  `math.pi` and the float operator `%` are the fields `F.pi`, `F.fmod` of the parameter `F : FloatOps α`\n"
                "(`Model/FloatOps.lean`): the theorems of `Props/C12M.lean` take `F.Exact` (π, `x − m⌊x/m⌋`, cos, sin) as their one\n"
                "hypothesis about floats, resp. instantiate `F` with 1/2 turn over ℚ.  Rounding is not modelled. -/\n\n")
ALPHA = "{α : Type} [Add α] [Sub α] [Mul α] [Div α] [LT α] [DecidableLT α] [OfNat α 2] [NatCast α]"


class Ar:
    """float arithmetic over names -> Lean term over α"""

    def __init__(self, fname, env):
        self.f = fname
        self.env = dict(env)     # python name -> "a" (number of type α) | "n" (Nat)

    def E(self, n):
        if isinstance(n, ast.Name):
            if n.id == "pi": return "F.pi", "a"
            if n.id not in self.env: raise TranslateError(f"{self.f}: unknown name `{n.id}`")
            return ("v_" + n.id), self.env[n.id]
        if isinstance(n, ast.Attribute) and ast.unparse(n) in ("math.pi", "np.pi", "numpy.pi", "cmath.pi"): return "F.pi", "a"
        if isinstance(n, ast.Constant) and isinstance(n.value, int) and not isinstance(n.value, bool):
            if n.value == 2: return "2", "a"
            return f"(({n.value} : Nat) : α)", "a"
        if isinstance(n, ast.BinOp) and type(n.op) in (ast.Add, ast.Sub, ast.Mult, ast.Div, ast.Mod):
            a, aty = self.E(n.left); b, bty = self.E(n.right)
            if aty == "n": a = f"({a} : α)"
            if bty == "n": b = f"({b} : α)"
            if isinstance(n.op, ast.Mod): return f"(F.fmod {a} {b})", "a"
            return f"({a} {({ast.Add: '+', ast.Sub: '-', ast.Mult: '*', ast.Div: '/'})[type(n.op)]} {b})", "a"
        raise TranslateError(f"{self.f}: expression `{ast.unparse(n)[:60]}` is not understood")

    def block(self, stmts):
        if not stmts: raise TranslateError(f"{self.f}: no return")
        st, rest = stmts[0], stmts[1:]
        if isinstance(st, ast.Return):
            t, _ = self.E(st.value)
            return t
        if isinstance(st, ast.Assign) and len(st.targets) == 1 and _name(st.targets[0]):
            t, ty = self.E(st.value)
            self.env[st.targets[0].id] = ty
            return f"let v_{st.targets[0].id} := {t}\n" + self.block(rest)
        if isinstance(st, ast.If) and not st.orelse and len(st.body) == 1 and isinstance(st.test, ast.Compare) and len(st.test.ops) == 1 \
                and isinstance(st.test.ops[0], ast.Lt):
            a, _ = self.E(st.test.left); b, _ = self.E(st.test.comparators[0])
            s0 = st.body[0]
            if isinstance(s0, ast.AugAssign) and _name(s0.target) and isinstance(s0.op, (ast.Add, ast.Sub)):
                t, _ = self.E(s0.value)
                x = "v_" + s0.target.id
                return f"let {x} := if {a} < {b} then {x} {'+' if isinstance(s0.op, ast.Add) else '-'} {t} else {x}\n" + self.block(rest)
        raise TranslateError(f"{self.f}: statement `{ast.unparse(st)[:60]}` is not understood")


def translate_maths():
    sites, chunks = [], []
    try:
        tree, _ = T.load(MATHS_FILE)
    except Exception as e:  # noqa
        T.write_generated("C12Maths", "namespace Mouette.Generated.C12Maths\nend Mouette.Generated.C12Maths\n")
        return [{"site": "maths.py", "ok": False, "detail": f"{type(e).__name__}: {e}"}]

    def fn_body(name, nparams):
        fn = T.find_def(tree, name)
        names = [a.arg for a in fn.args.args]
        if len(names) != nparams: raise TranslateError(f"{name}: parameters {names}")
        fn = Norm().visit(copy.deepcopy(fn)); ast.fix_missing_locations(fn)
        return names, _strip(fn.body)

    def s_principal():
        names, body = fn_body("principal_angle", 1)
        txt = Ar("principal_angle", {names[0]: "a"}).block(body)
        chunks.append(f"/-- `principal_angle` -/\ndef principalAngle {ALPHA} (F : FloatOps α) (v_{names[0]} : α) : α :=\n{ind(txt)}\n")
        return "body compiled"

    def s_diff():
        names, body = fn_body("angle_diff", 2)
        txt = Ar("angle_diff", {names[0]: "a", names[1]: "a"}).block(body)
        chunks.append(f"/-- `angle_diff` -/\ndef angleDiff {ALPHA} (F : FloatOps α) (v_{names[0]} v_{names[1]} : α) : α :=\n{ind(txt)}\n")
        return "body compiled"

    def s_roots():
        names, body = fn_body("roots", 3)
        # r, t = cmath.polar(c); r = 1 if normalize else r ** (1 / pow); return [cmath.rect(r, ARG) for k in range(pow)]
        if len(body) != 3: raise TranslateError("roots: expected three statements")
        a0, a1, r = body
        if not (isinstance(a0, ast.Assign) and isinstance(a0.targets[0], ast.Tuple) and len(a0.targets[0].elts) == 2 and _call(a0.value, "cmath.polar")
                and len(a0.value.args) == 1 and _name(a0.value.args[0], names[0])):
            raise TranslateError("roots: expected `r, t = cmath.polar(c)`")
        mod, arg = [e.id for e in a0.targets[0].elts]
        if not (isinstance(a1, ast.Assign) and _name(a1.targets[0], mod) and isinstance(a1.value, ast.IfExp) and _name(a1.value.test, names[2])
                and isinstance(a1.value.body, ast.Constant) and a1.value.body.value == 1):
            raise TranslateError("roots: expected `r = 1 if normalize else ..`")
        if not (isinstance(r, ast.Return) and isinstance(r.value, ast.ListComp) and len(r.value.generators) == 1 and not r.value.generators[0].ifs
                and _call(r.value.generators[0].iter, "range") and len(r.value.generators[0].iter.args) == 1
                and _name(r.value.generators[0].iter.args[0], names[1]) and _call(r.value.elt, "cmath.rect") and len(r.value.elt.args) == 2
                and _name(r.value.elt.args[0], mod) and _name(r.value.generators[0].target)):
            raise TranslateError("roots: expected `return [cmath.rect(r, <arg>) for k in range(pow)]`")
        k = r.value.generators[0].target.id
        t, _ = Ar("roots", {arg: "a", k: "n", names[1]: "n"}).E(r.value.elt.args[1])
        chunks.append(f"/-- `roots` (normalised): the ARGUMENTS handed to `cmath.rect`, `t` = argument of the input (`cmath.polar`) -/\n"
                      f"def rootArgs {ALPHA} (F : FloatOps α) (v_{arg} : α) (v_{names[1]} : Nat) : List α :=\n"
                      f"  (List.range v_{names[1]}).map (fun (v_{k} : Nat) => {t})\n")
        return "argument expression of the comprehension compiled"

    for name, fn in (("maths.py: principal_angle (body)", s_principal), ("maths.py: angle_diff (body)", s_diff), ("maths.py: roots (body)", s_roots)):
        sites.append(T.site(name, fn))
    T.write_generated("C12Maths", "\n".join(chunks) + "\nend Mouette.Generated.C12Maths\n", MATHS_HEADER)
    return sites


# ------------------------------------------------------------------------------------------------------------------
# mouette/geometry/geometry.py: closed-form primitives -> lean/Mouette/Generated/C12Prim.lean
# ------------------------------------------------------------------------------------------------------------------
GEOM_FILE = "mouette/geometry/geometry.py"
PRIM_HEADER = ("import Mouette.Model.Prim\nset_option linter.unusedVariables false\nnamespace Mouette.Generated.C12Prim\nopen Mouette.Prim\n\n"
               "/-! Bodies of closed-form primitives of `mouette/geometry/geometry.py` over ℚ, on the vector vocabulary of `Model/Prim.lean`\n"
               "(`V2`/`V3` with `add sub smul dot cross norm2`, `det2`, `rabs`).  Square roots are never taken: a value produced by `.norm()` /\n"
               "`distance(..)` / `norm(..)` is carried by its SQUARE, and `math.atan2(s, c)` with `s` such a value is returned as the pair `(s², c)`.\n"
               "A comparison between NON-NEGATIVE values one of which is such a value (`abs(x) <= c * norm(a) * norm(b)`, `c ≥ 0` a literal) is read\n"
               "on the squares (`x*x ≤ (c*c) * |a|² * |b|²`): equivalent because both sides are non-negative. -/\n\n"
               "def rmax (a b : Rat) : Rat := if a ≤ b then b else a\ndef rmin (a b : Rat) : Rat := if a ≤ b then a else b\n\n")


class Pr:
    """vector arithmetic -> Lean term; types: 's' Rat, 'q' (non-negative scalar known by its square), 'v2', 'v3', 'i' (Int sign)"""

    def __init__(self, fname, env):
        self.f = fname
        self.env = dict(env)

    def vops(self, ty):
        return "V2" if ty == "v2" else "V3"

    def E(self, n):
        from fractions import Fraction
        if isinstance(n, ast.Name):
            if n.id not in self.env: raise TranslateError(f"{self.f}: unknown name `{n.id}`")
            return "v_" + n.id, self.env[n.id]
        if isinstance(n, ast.Constant) and isinstance(n.value, (int, float)) and not isinstance(n.value, bool):
            f = Fraction(str(n.value))
            return (f"(({f.numerator} : Rat) / {f.denominator})" if f.denominator != 1 else f"({f.numerator} : Rat)"), "s"
        if isinstance(n, ast.UnaryOp) and isinstance(n.op, ast.USub):
            t, ty = self.E(n.operand)
            if ty == "s": return f"(-{t})", "s"
        if isinstance(n, ast.Attribute) and n.attr in ("x", "y", "z"):
            t, ty = self.E(n.value)
            if ty in ("v2", "v3") and not (ty == "v2" and n.attr == "z"): return f"{t}.{n.attr}", "s"
        if isinstance(n, ast.Subscript) and isinstance(n.slice, ast.Slice) and n.slice.lower is None and n.slice.step is None \
                and isinstance(n.slice.upper, ast.Constant) and n.slice.upper.value == 2:
            t, ty = self.E(n.value)
            if ty == "v2": return t, "v2"          # `u[:2]` of a planar vector
        if isinstance(n, ast.BinOp):
            a, aty = self.E(n.left); b, bty = self.E(n.right)
            op = type(n.op)
            if aty == bty and aty in ("v2", "v3") and op in (ast.Add, ast.Sub):
                return f"({self.vops(aty)}.{'add' if op is ast.Add else 'sub'} {a} {b})", aty
            if aty == "s" and bty in ("v2", "v3") and op is ast.Mult: return f"({self.vops(bty)}.smul {a} {b})", bty
            if aty in ("v2", "v3") and bty == "s" and op is ast.Mult: return f"({self.vops(aty)}.smul {b} {a})", aty
            if aty == "s" and bty == "s" and op in (ast.Add, ast.Sub, ast.Mult, ast.Div):
                return f"({a} {({ast.Add: '+', ast.Sub: '-', ast.Mult: '*', ast.Div: '/'})[op]} {b})", "s"
            if op is ast.Mult and "q" in (aty, bty):
                # products of non-negative values known by their squares: the text IS the square
                qa = self.as_q(n.left, a, aty); qb = self.as_q(n.right, b, bty)
                return f"({qa} * {qb})", "q"
            raise TranslateError(f"{self.f}: arithmetic `{ast.unparse(n)[:60]}` on {aty}, {bty}")
        if isinstance(n, ast.Call):
            d = _call(n) or ""
            a = n.args
            if d in ("Vec",) and len(a) == 1: return self.E(a[0])
            if d == "Vec" and len(a) == 2:
                x, xt = self.E(a[0]); y, yt = self.E(a[1])
                if xt == "s" and yt == "s": return f"(⟨{x}, {y}⟩ : V2)", "v2"
            if d in ("dot", "np.dot") and len(a) == 2:
                x, xt = self.E(a[0]); y, yt = self.E(a[1])
                if xt == yt and xt in ("v2", "v3"): return f"({self.vops(xt)}.dot {x} {y})", "s"
            if d == "cross" and len(a) == 2:
                x, xt = self.E(a[0]); y, yt = self.E(a[1])
                if xt == "v3" and yt == "v3": return f"(V3.cross {x} {y})", "v3"
            if d == "det_2x2" and len(a) == 2:
                x, xt = self.E(a[0]); y, yt = self.E(a[1])
                if xt == "v2" and yt == "v2": return f"(det2 {x} {y})", "s"
            if d == "abs" and len(a) == 1:
                x, xt = self.E(a[0])
                if xt == "s": return f"(rabs {x})", "s"
            if d in ("max", "min") and len(a) == 2:
                x, xt = self.E(a[0]); y, yt = self.E(a[1])
                if xt == "s" and yt == "s": return f"(r{d} {x} {y})", "s"
            if d == "distance" and len(a) == 2:
                x, xt = self.E(a[0]); y, yt = self.E(a[1])
                if xt == yt and xt in ("v2", "v3"): return f"({self.vops(xt)}.norm2 ({self.vops(xt)}.sub {y} {x}))", "q"
            if d == "norm" and len(a) == 1 and not n.keywords:
                x, xt = self.E(a[0])
                if xt in ("v2", "v3"): return f"({self.vops(xt)}.norm2 {x})", "q"
            if isinstance(n.func, ast.Attribute) and n.func.attr == "norm" and not a:
                x, xt = self.E(n.func.value)
                if xt in ("v2", "v3"): return f"({self.vops(xt)}.norm2 {x})", "q"
            if d == "sign0" and len(a) == 1:
                x, xt = self.E(a[0])
                if xt == "s": return f"(sign0 {x})", "i"
            if d == "math.atan2" and len(a) == 2:
                x, xt = self.E(a[0]); y, yt = self.E(a[1])
                if xt == "q" and yt == "s": return f"({x}, {y})", "atan"
        if isinstance(n, ast.BinOp): pass
        raise TranslateError(f"{self.f}: expression `{ast.unparse(n)[:70]}` is not understood")

    def as_q(self, node, t, ty):
        """the SQUARE of a non-negative value: a value of type 'q' (its text is its square), a non-negative literal, `abs(x)`"""
        if ty == "q": return t
        if isinstance(node, ast.Constant) and isinstance(node.value, (int, float)) and not isinstance(node.value, bool) and node.value >= 0:
            return f"({t} * {t})"
        if _call(node, "abs") and len(node.args) == 1:
            x, xt = self.E(node.args[0])
            if xt == "s": return f"({x} * {x})"
        raise TranslateError(f"{self.f}: `{ast.unparse(node)[:50]}` is not known to be non-negative (needed to compare it with a norm on the squares)")

    def block(self, stmts, opt):
        if not stmts: raise TranslateError(f"{self.f}: no return")
        st, rest = stmts[0], stmts[1:]
        if isinstance(st, ast.Return):
            if isinstance(st.value, ast.BinOp) and isinstance(st.value.op, ast.Mult) and not _call(st.value.right, "norm"):
                a, aty = self.E(st.value.left); b, bty = self.E(st.value.right)
                if aty == "i" and bty == "atan": return f"({a}, {b}.1, {b}.2)"        # sign * atan2(s, c)
            t, ty = self.E(st.value)
            return f"some {t}" if opt else t
        if isinstance(st, ast.Assign) and len(st.targets) == 1 and _name(st.targets[0]):
            t, ty = self.E(st.value)
            self.env[st.targets[0].id] = ty
            return f"let v_{st.targets[0].id} := {t}\n" + self.block(rest, opt)
        if isinstance(st, ast.Assign) and isinstance(st.targets[0], ast.Tuple):
            # `a, b, c = (u[:2] for u in (a, b, c))` / `P, A, B = P[:2], A[:2], B[:2]`: planar truncation of planar arguments
            tg = [e.id for e in st.targets[0].elts if _name(e)]
            v = st.value
            if isinstance(v, ast.GeneratorExp) and len(v.generators) == 1 and isinstance(v.generators[0].iter, ast.Tuple) \
                    and [ast.unparse(e) for e in v.generators[0].iter.elts] == tg and ast.unparse(v.elt) == f"{ast.unparse(v.generators[0].target)}[:2]" \
                    and all(self.env.get(x) == "v2" for x in tg):
                return self.block(rest, opt)
            if isinstance(v, ast.Tuple) and [ast.unparse(e) for e in v.elts] == [f"{x}[:2]" for x in tg] and all(self.env.get(x) == "v2" for x in tg):
                return self.block(rest, opt)
        if isinstance(st, ast.If) and not st.orelse and len(st.body) == 1 and isinstance(st.body[0], ast.Return) \
                and isinstance(st.test, ast.Compare) and len(st.test.ops) == 1 and isinstance(st.test.ops[0], (ast.Lt, ast.LtE)):
            a, aty = self.E(st.test.left); b, bty = self.E(st.test.comparators[0])
            if "q" in (aty, bty):
                a, b = self.as_q(st.test.left, a, aty), self.as_q(st.test.comparators[0], b, bty)
            elif not (aty == "s" and bty == "s"):
                raise TranslateError(f"{self.f}: comparison of {aty} with {bty}")
            sym = "<" if isinstance(st.test.ops[0], ast.Lt) else "≤"
            r = st.body[0].value
            if isinstance(r, ast.Constant) and r.value is None and opt:
                return f"if {a} {sym} {b} then none else\n" + self.block(rest, opt)
            t, ty = self.E(r)
            return f"if {a} {sym} {b} then {t} else\n" + self.block(rest, opt)
        raise TranslateError(f"{self.f}: statement `{ast.unparse(st)[:70]}` is not understood")


PRIMS = [  # lean name, python name, parameter types, return type, optional result
    ("projectToPlane", "project_to_plane", ["v3", "v3", "v3"], "V3", False),
    ("intersect2", "intersect_2lines2D", ["v2", "v2", "v2", "v2"], "Option V2", True),
    ("distSeg2", "distance_to_segment2D", ["v2", "v2", "v2"], "Rat", False),
    ("area2", "triangle_area_2D", ["v2", "v2", "v2"], "Rat", False),
    ("angle3", "angle_3pts", ["v3", "v3", "v3"], "Rat × Rat", False),
    ("signedAngle", "signed_angle_2vec3D", ["v3", "v3", "v3"], "Int × Rat × Rat", False),
]
LT = {"v2": "V2", "v3": "V3", "s": "Rat"}


def translate_prims():
    sites, chunks = [], []
    try:
        tree, _ = T.load(GEOM_FILE)
    except Exception as e:  # noqa
        T.write_generated("C12Prim", "namespace Mouette.Generated.C12Prim\nend Mouette.Generated.C12Prim\n")
        return [{"site": "geometry.py", "ok": False, "detail": f"{type(e).__name__}: {e}"}]

    def s_sign0():
        fn = T.find_def(tree, "sign0")
        fn = Norm().visit(copy.deepcopy(fn)); ast.fix_missing_locations(fn)
        body = _strip(fn.body)
        x = fn.args.args[0].arg
        ok = (len(body) == 2 and isinstance(body[0], ast.If) and not body[0].orelse and ast.unparse(body[0].test) == f"0 <= {x}"
              and len(body[0].body) == 1 and isinstance(body[0].body[0], ast.Return) and ast.unparse(body[0].body[0].value) == "1"
              and isinstance(body[1], ast.Return) and ast.unparse(body[1].value) == "-1")
        if not ok: raise TranslateError(f"sign0: expected `if x >= 0: return 1` / `return -1`, found `{ast.unparse(fn)[-80:]}`")
        chunks.append("/-- `sign0` -/\ndef sign0 (v_x : Rat) : Int :=\n  if 0 ≤ v_x then 1 else -1\n")
        return "two-branch sign"
    sites.append(T.site("geometry.py: sign0 (body)", s_sign0))
    for lean, py, ptys, ret, opt in PRIMS:
        def run(lean=lean, py=py, ptys=ptys, ret=ret, opt=opt):
            fn = T.find_def(tree, py)
            names = [a.arg for a in fn.args.args]
            if len(names) != len(ptys): raise TranslateError(f"{py}: parameters {names}")
            fn = Norm().visit(copy.deepcopy(fn)); ast.fix_missing_locations(fn)
            txt = Pr(py, dict(zip(names, ptys))).block(_strip(fn.body), opt)
            ps = " ".join(f"(v_{n} : {LT[t]})" for n, t in zip(names, ptys))
            chunks.append(f"/-- `{py}` -/\ndef {lean} {ps} : {ret} :=\n{ind(txt)}\n")
            return "body compiled"
        sites.append(T.site(f"geometry.py: {py} (body)", run))
    T.write_generated("C12Prim", "\n".join(chunks) + "\nend Mouette.Generated.C12Prim\n", PRIM_HEADER)
    return sites


# ------------------------------------------------------------------------------------------------------------------
# frame conditions at source level: write sets relative to the ARGUMENTS, calls that set numpy's error state
# ------------------------------------------------------------------------------------------------------------------
WRITE_TARGETS = [("mouette/geometry/aabb.py", "AABB", None),
                 ("mouette/geometry/geometry.py", None, ["norm", "dot", "distance", "cross", "cotan", "angle_3pts", "signed_angle_2vec3D", "triangle_area_2D",
                                                        "det_2x2", "det_3x3", "intersect_2lines2D", "circumcenter", "face_basis", "distance_to_segment2D",
                                                        "project_to_plane"]),
                 ("mouette/geometry/rotations.py", None, ["rotate_2d", "rotate_around_axis"]),
                 ("mouette/geometry/vector.py", "Vec", ["normalized", "normalize", "norm", "dot", "__new__"])]


def _arg_write_set(fn):
    """stores / in-place updates / mutating method calls that reach a PARAMETER of `fn` or a name bound from one"""
    from ..props.c11_translate import _root, _mentions, MUTATORS
    aliases = {a.arg for a in fn.args.args} | ({fn.args.vararg.arg} if fn.args.vararg else set())
    for _ in range(3):
        for n in ast.walk(fn):
            if isinstance(n, ast.Assign) and _mentions(n.value, aliases):
                for t in n.targets:
                    # only a REBINDING makes a new alias (a store `x.f = e` / `x[i] = e` does not rebind x)
                    for m in ([t] if not isinstance(t, (ast.Tuple, ast.List)) else t.elts):
                        if isinstance(m, ast.Name): aliases.add(m.id)
            if isinstance(n, (ast.For, ast.comprehension)) and _mentions(n.iter, aliases):
                for m in ast.walk(n.target):
                    if isinstance(m, ast.Name): aliases.add(m.id)
    out = set()
    for n in ast.walk(fn):
        targets = []
        if isinstance(n, ast.Assign): targets = n.targets
        elif isinstance(n, (ast.AugAssign, ast.AnnAssign)): targets = [n.target]
        elif isinstance(n, ast.Delete): targets = n.targets
        for t in targets:
            for m in ([t] if not isinstance(t, (ast.Tuple, ast.List)) else t.elts):
                if isinstance(m, (ast.Attribute, ast.Subscript)) and _root(m) in aliases:
                    out.add(ast.unparse(m))
                elif isinstance(n, ast.AugAssign) and isinstance(m, ast.Name) and m.id in aliases:
                    out.add(ast.unparse(m) + " (in-place)")
        if isinstance(n, ast.Call) and isinstance(n.func, ast.Attribute) and n.func.attr in MUTATORS and _root(n.func.value) in aliases:
            out.add(ast.unparse(n.func))
        if isinstance(n, ast.Call) and isinstance(n.func, ast.Attribute) and any(k.arg == "out" for k in n.keywords):
            out.add("out= of " + ast.unparse(n.func))
    return sorted(out)


def translate_writes():
    rows, seterr = [], []

    def run():
        for rel, cls, names in WRITE_TARGETS:
            tree, _ = T.load(rel)
            scope = T.find_def(tree, cls) if cls else tree
            fns = [f for f in scope.body if isinstance(f, ast.FunctionDef)]
            if names is not None:
                missing = [x for x in names if x not in [f.name for f in fns]]
                if missing: raise TranslateError(f"{rel}: functions {missing} not found")
                fns = [f for f in fns if f.name in names]
            for f in fns:
                if any(isinstance(d, ast.Attribute) and d.attr == "setter" for d in f.decorator_list): continue
                q = (cls + "." if cls else "") + f.name
                rows.append((q, _arg_write_set(f)))
                for n in ast.walk(f):
                    if isinstance(n, ast.Call) and ast.unparse(n.func).split(".")[-1] in ("seterr", "seterrcall", "seterrobj"):
                        seterr.append(q)
        return f"{len(rows)} functions; with writes: {[(q, w) for q, w in rows if w]}; seterr calls: {seterr}"
    site = T.site("aabb.py / geometry.py / rotations.py / vector.py: write sets reaching arguments, numpy.seterr calls", run)
    body = ("namespace Mouette.Generated.C12W\n\n/-- per function: the stores / in-place updates / mutating calls that reach one of its ARGUMENTS (or a name bound from one) -/\n"
            "def writes : List (String × List String) := [\n" +
            ",\n".join('  ("' + q + '", [' + ", ".join('"' + w.replace('"', "'") + '"' for w in ws) + "])" for q, ws in rows) +
            "]\n\n/-- functions that call `numpy.seterr` (process-wide floating-point error mode) -/\n"
            "def seterrCalls : List String := [" + ", ".join('"' + q + '"' for q in seterr) + "]\n\nend Mouette.Generated.C12W\n")
    T.write_generated("C12W", body)
    return [site]


# ------------------------------------------------------------------------------------------------------------------
# round 5: vector.py (Vec.*) and the remaining hand-modelled functions of geometry.py -> lean/Mouette/Generated/C12Vec.lean
# ------------------------------------------------------------------------------------------------------------------
VEC_FILE = "mouette/geometry/vector.py"
VEC_HEADER = ("import Mouette.Model.VecSource\nset_option linter.unusedVariables false\nnamespace Mouette.Generated.C12Vec\n"
              "open Mouette.VecS Mouette.BoxHist Mouette.Prim\n\n")


class Nv:
    """bodies of the norm / dot / distance family: values are `List Rat`, results `NVal` (a root is never evaluated)"""

    def __init__(self, fname, env, norm_name):
        self.f, self.env, self.norm_name = fname, dict(env), norm_name

    def E(self, n):
        if isinstance(n, ast.Name):
            if n.id not in self.env: raise TranslateError(f"{self.f}: unknown name `{n.id}`")
            return "v_" + n.id, self.env[n.id]
        if isinstance(n, ast.Constant) and isinstance(n.value, str): return f'"{n.value}"', "str"
        if isinstance(n, ast.BinOp) and isinstance(n.op, ast.Sub):
            a, aty = self.E(n.left); b, bty = self.E(n.right)
            if aty == "pt" and bty == "pt": return f"(vsub {a} {b})", "pt"
        if isinstance(n, ast.Call):
            d = (_call(n) or "").replace("numpy.", "np.")
            a = n.args
            if isinstance(n.func, ast.Attribute) and n.func.attr == "flatten" and not a: return self.E(n.func.value)
            if d == "Vec" and len(a) == 1: return self.E(a[0])
            if d == "np.dot" and len(a) == 2 and not n.keywords:
                x, xt = self.E(a[0]); y, yt = self.E(a[1])
                if xt == "pt" and yt == "pt": return f"(vdot {x} {y})", "rat"
            if d == "np.abs" and len(a) == 1:
                x, xt = self.E(a[0])
                if xt == "pt": return f"(vabs {x})", "pt"
            if d in ("np.sum", "np.max") and len(a) == 1 and not n.keywords:
                x, xt = self.E(a[0])
                if xt == "pt": return f"(NVal.exact ({'vsum' if d == 'np.sum' else 'vmaxl'} {x}))", "nval"
            if d in ("np.sqrt", "math.sqrt", "sqrt") and len(a) == 1:
                x, xt = self.E(a[0])
                if xt == "rat": return f"(NVal.sqrt {x})", "nval"
            if d in ("norm", "Vec.norm") and len(a) == 2 and not n.keywords and self.norm_name:
                x, xt = self.E(a[0]); y, yt = self.E(a[1])
                if xt == "pt" and yt == "str": return f"({self.norm_name} {x} {y})", "onval"
        raise TranslateError(f"{self.f}: expression `{ast.unparse(n)[:70]}` is not understood")

    def block(self, stmts):
        if not stmts: return "none"            # falls off the end: Python returns None
        st, rest = stmts[0], stmts[1:]
        if isinstance(st, ast.Expr) and _call(st.value, "check_argument"):
            a = st.value.args
            if len(a) == 4 and isinstance(a[3], ast.List) and all(isinstance(e, ast.Constant) and isinstance(e.value, str) for e in a[3].elts) and _name(a[1]):
                lst = "[" + ", ".join(f'"{e.value}"' for e in a[3].elts) + "]"
                return f"if !(({lst} : List String).contains v_{a[1].id}) then none else\n" + self.block(rest)
        if isinstance(st, ast.Return):
            t, ty = self.E(st.value)
            if ty == "nval": return f"some {t}"
            if ty == "onval": return t
            raise TranslateError(f"{self.f}: returns a value of type {ty}")
        if isinstance(st, ast.If) and isinstance(st.test, ast.Compare) and len(st.test.ops) == 1 and isinstance(st.test.ops[0], ast.Eq):
            a, aty = self.E(st.test.left); b, bty = self.E(st.test.comparators[0])
            if aty == "str" and bty == "str":
                yes = self.block(_strip(st.body))
                no = self.block(_strip(st.orelse) + rest)
                return f"if {a} = {b} then {yes} else\n{no}"
        raise TranslateError(f"{self.f}: statement `{ast.unparse(st)[:70]}` is not understood")


def _norm_fn(tree, cls, name, lean, doc):
    scope = T.find_def(tree, cls) if cls else tree
    fn = [f for f in scope.body if isinstance(f, ast.FunctionDef) and f.name == name]
    if not fn: raise TranslateError(f"{doc} not found")
    fn = Norm().visit(copy.deepcopy(fn[0])); ast.fix_missing_locations(fn)
    names = [a.arg for a in fn.args.args]
    if len(names) != 2: raise TranslateError(f"{doc}: parameters {names}")
    txt = Nv(doc, {names[0]: "pt", names[1]: "str"}, None).block(_strip(fn.body))
    return f"/-- `{doc}` (`none`: the argument check raises, or no branch returns) -/\ndef {lean} (v_{names[0]} : List Rat) (v_{names[1]} : String) : Option NVal :=\n{ind(txt)}\n"


def _err_fn(tree, name, lean):
    """`Vec.normalized` / `Vec.normalize`: the statements that touch numpy's error state and the division, state-passing over `Err`"""
    cls = T.find_def(tree, "Vec")
    fn = [f for f in cls.body if isinstance(f, ast.FunctionDef) and f.name == name]
    if not fn: raise TranslateError(f"Vec.{name} not found")
    fn = fn[0]
    names = [a.arg for a in fn.args.args]
    if len(names) != 2: raise TranslateError(f"Vec.{name}: parameters {names}")
    vec = names[0]
    norms = set()

    def is_norm(n):
        return (_call(n) in ("Vec.norm", "norm") and len(n.args) == 2 and _name(n.args[0], vec)) or \
               (isinstance(n, ast.Call) and isinstance(n.func, ast.Attribute) and n.func.attr == "norm" and _name(n.func.value, vec))

    def is_div(n):
        while _call(n) in ("Vec", "np.asarray", "np.array") and len(n.args) == 1: n = n.args[0]
        return isinstance(n, ast.BinOp) and isinstance(n.op, ast.Div) and _name(n.left, vec) and \
            ((_name(n.right) and n.right.id in norms) or is_norm(n.right))

    def mode(call):
        kw = {k.arg: k.value for k in call.keywords}
        if set(kw) == {"all"} and isinstance(kw["all"], ast.Constant) and kw["all"].value in ("raise", "warn", "ignore") and not call.args:
            return "." + kw["all"].value
        raise TranslateError(f"Vec.{name}: `{ast.unparse(call)[:60]}` (understood: all='raise'|'warn'|'ignore')")

    def block(stmts, restore, k):
        if not stmts: return k()
        st, rest = stmts[0], stmts[1:]

        def after(): return block(rest, restore, k)
        if isinstance(st, ast.Assign) and len(st.targets) == 1 and _name(st.targets[0]) and is_norm(st.value):
            norms.add(st.targets[0].id); return after()
        if (isinstance(st, ast.Assign) and len(st.targets) == 1 and _name(st.targets[0]) and is_div(st.value)) or \
                (isinstance(st, ast.AugAssign) and _name(st.target, vec) and isinstance(st.op, ast.Div) and ((_name(st.value) and st.value.id in norms) or is_norm(st.value))):
            return f"if divRaises e v_{vec} then ({restore}, false) else\n" + after()
        if isinstance(st, ast.Expr) and (_call(st.value) or "").split(".")[-1] == "seterr":
            return f"let e := Err.all {mode(st.value)}\n" + after()
        if isinstance(st, ast.With) and len(st.items) == 1 and (_call(st.items[0].context_expr) or "").split(".")[-1] == "errstate":
            m = mode(st.items[0].context_expr)
            lvl = restore.count("_") + 1
            saved = "saved" + "_" * lvl
            inner = block(_strip(st.body), saved, lambda: f"let e := {saved}\n" + block(rest, restore, k))
            return f"let {saved} := e\nlet e := Err.all {m}\n" + inner
        if isinstance(st, ast.Return):
            return "(e, true)"
        raise TranslateError(f"Vec.{name}: statement `{ast.unparse(st)[:70]}` is not understood")
    txt = block(_strip(Norm().visit(copy.deepcopy(fn)).body), "e", lambda: "(e, true)")
    return (f"/-- `Vec.{name}`: numpy's error state after the call and whether it returned (`true`) or raised (`false`) -/\n"
            f"def {lean} (e : Err) (v_{vec} : List Rat) : Err × Bool :=\n{ind(txt)}\n")


class Ps(Pr):
    """`Pr` plus vectors known up to positive factors (`Vec.normalized`): type ('n3'|'h3'|'hs'|'hq', factors)"""

    def E(self, n):
        d = _call(n) or ""
        if isinstance(n, ast.Call):
            a = n.args
            if d in ("Vec.normalized",) and len(a) == 1:
                x, xt = self.E(a[0])
                if xt == "v3" or (isinstance(xt, tuple) and xt[0] in ("h3", "n3")): return x, ("n3", (x,))
                raise TranslateError(f"{self.f}: normalized of a value of type {xt}")
            if d in ("cross", "dot", "np.dot") and len(a) == 2:
                x, xt = self.E(a[0]); y, yt = self.E(a[1])
                fx = xt[1] if isinstance(xt, tuple) else (); fy = yt[1] if isinstance(yt, tuple) else ()
                okx = xt == "v3" or (isinstance(xt, tuple) and xt[0] in ("n3", "h3")); oky = yt == "v3" or (isinstance(yt, tuple) and yt[0] in ("n3", "h3"))
                if okx and oky and (fx or fy):
                    fac = tuple(sorted(fx + fy))
                    if d == "cross": return f"(V3.cross {x} {y})", ("h3", fac)
                    return f"(V3.dot {x} {y})", ("hs", fac)
            if d == "norm" and len(a) == 1:
                x, xt = self.E(a[0])
                if isinstance(xt, tuple) and xt[0] == "h3": return f"(V3.norm2 {x})", ("hq", xt[1])
        if isinstance(n, ast.BinOp) and isinstance(n.op, ast.Div):
            x, xt = self.E(n.left); y, yt = self.E(n.right)
            if isinstance(xt, tuple) and isinstance(yt, tuple) and xt[0] == "hs" and yt[0] == "hq":
                if xt[1] != yt[1]:
                    raise TranslateError(f"{self.f}: the positive factors of `{ast.unparse(n)[:50]}` do not cancel ({xt[1]} vs {yt[1]})")
                return f"({x}, {y})", "rq"
        return super().E(n)


def translate_vec():
    sites, chunks = [], []
    try:
        vtree, _ = T.load(VEC_FILE)
        gtree, _ = T.load(GEOM_FILE)
    except Exception as e:  # noqa
        T.write_generated("C12Vec", "namespace Mouette.Generated.C12Vec\nend Mouette.Generated.C12Vec\n")
        return [{"site": "vector.py / geometry.py", "ok": False, "detail": f"{type(e).__name__}: {e}"}]

    def add(name, fn):
        def run():
            r = fn()
            chunks.append(r)
            return "body compiled"
        sites.append(T.site(name, run))

    add("geometry.py: norm (body)", lambda: _norm_fn(gtree, None, "norm", "normG", "norm"))
    add("vector.py: Vec.norm (body)", lambda: _norm_fn(vtree, "Vec", "norm", "vecNorm", "Vec.norm"))

    def s_dots():
        out = ""
        for tree, cls, lean, doc in ((gtree, None, "dotG", "dot"), (vtree, "Vec", "vecDot", "Vec.dot")):
            scope = T.find_def(tree, cls) if cls else tree
            fn = [f for f in scope.body if isinstance(f, ast.FunctionDef) and f.name == "dot"][0]
            names = [a.arg for a in fn.args.args]
            body = _strip(fn.body)
            if len(names) != 2 or len(body) != 1 or not isinstance(body[0], ast.Return): raise TranslateError(f"{doc}: expected a single return")
            t, ty = Nv(doc, {names[0]: "pt", names[1]: "pt"}, None).E(body[0].value)
            if ty != "rat": raise TranslateError(f"{doc}: returns {ty}")
            out += f"/-- `{doc}` -/\ndef {lean} (v_{names[0]} v_{names[1]} : List Rat) : Rat :=\n  {t}\n\n"
        return out
    add("geometry.py: dot / vector.py: Vec.dot (bodies)", s_dots)

    def s_distance():
        fn = T.find_def(gtree, "distance")
        names = [a.arg for a in fn.args.args]
        body = _strip(fn.body)
        if len(names) != 3 or len(body) != 1 or not isinstance(body[0], ast.Return): raise TranslateError("distance: expected a single return")
        t, ty = Nv("distance", {names[0]: "pt", names[1]: "pt", names[2]: "str"}, "normG").E(body[0].value)
        if ty != "onval": raise TranslateError(f"distance: returns {ty}")
        return f"/-- `distance` -/\ndef distanceG (v_{names[0]} v_{names[1]} : List Rat) (v_{names[2]} : String) : Option NVal :=\n  {t}\n"
    add("geometry.py: distance (body)", s_distance)
    add("vector.py: Vec.normalized (error state + division)", lambda: _err_fn(vtree, "normalized", "normalized"))
    add("vector.py: Vec.normalize (error state + division)", lambda: _err_fn(vtree, "normalize", "normalize"))

    def s_cotan():
        fn = T.find_def(gtree, "cotan")
        names = [a.arg for a in fn.args.args]
        if len(names) != 3: raise TranslateError(f"cotan: parameters {names}")
        fn = Norm().visit(copy.deepcopy(fn)); ast.fix_missing_locations(fn)
        p = Ps("cotan", {x: "v3" for x in names})
        body = _strip(fn.body)
        # `A, B, C = Vec(A), Vec(B), Vec(C)`: value-level identity
        if body and isinstance(body[0], ast.Assign) and isinstance(body[0].targets[0], ast.Tuple) and isinstance(body[0].value, ast.Tuple) \
                and [ast.unparse(e) for e in body[0].value.elts] == [f"Vec({ast.unparse(t)})" for t in body[0].targets[0].elts]:
            body = body[1:]
        txt = p.block(body, False)
        if p.env.get("__ret") is not None: pass
        return f"/-- `cotan`: the pair `(c, s²)` with `cotan = c/√s²` (the normalisations of `BA`, `BC` cancel) -/\ndef cotanPair (v_{names[0]} v_{names[1]} v_{names[2]} : V3) : Rat × Rat :=\n{ind(txt)}\n"
    add("geometry.py: cotan (body)", s_cotan)

    def s_face_basis():
        fn = T.find_def(gtree, "face_basis")
        if not fn.args.vararg or fn.args.args: raise TranslateError("face_basis: expected `*f`")
        f = fn.args.vararg.arg
        body = _strip(Norm().visit(copy.deepcopy(fn)).body)
        if body and isinstance(body[0], ast.If) and ast.unparse(body[0].test).replace(" ", "") in (f"len({f})==1", f"1==len({f})"): body = body[1:]
        if not (body and isinstance(body[0], ast.Assign) and isinstance(body[0].targets[0], ast.Tuple) and len(body[0].targets[0].elts) == 3
                and ast.unparse(body[0].value).replace(" ", "") in (f"(xforxin{f})", f)):
            raise TranslateError("face_basis: expected `pA, pB, pC = (x for x in f)`")
        pts = [e.id for e in body[0].targets[0].elts]
        p = Ps("face_basis", {x: "v3" for x in pts})
        lines = []
        for st in body[1:-1]:
            if not (isinstance(st, ast.Assign) and len(st.targets) == 1 and _name(st.targets[0])): raise TranslateError(f"face_basis: statement `{ast.unparse(st)[:60]}`")
            t, ty = p.E(st.value)
            p.env[st.targets[0].id] = ty
            lines.append(f"let v_{st.targets[0].id} := {t}")
        r = body[-1]
        if not (isinstance(r, ast.Return) and isinstance(r.value, ast.Tuple) and len(r.value.elts) == 3): raise TranslateError("face_basis: expected `return X, Y, Z`")
        outs = [p.E(e) for e in r.value.elts]
        if not all(isinstance(ty, tuple) and ty[0] == "n3" for _, ty in outs): raise TranslateError("face_basis: the returned vectors are not all normalised")
        lines.append("(" + ", ".join(t for t, _ in outs) + ")")
        ps = " ".join(f"(v_{x} : V3)" for x in pts)
        return ("/-- `face_basis`: the three returned vectors BEFORE their normalisation (each is then divided by its length) -/\n"
                f"def faceBasisRaw {ps} : V3 × V3 × V3 :=\n" + ind("\n".join(lines)) + "\n")
    add("geometry.py: face_basis (body)", s_face_basis)

    def s_vec_new():
        cls = T.find_def(vtree, "Vec")
        fn = [f for f in cls.body if isinstance(f, ast.FunctionDef) and f.name == "__new__"][0]
        kinds = []
        for n in ast.walk(fn):
            if isinstance(n, ast.Assign) and isinstance(n.value, ast.Call) and isinstance(n.value.func, ast.Attribute) and n.value.func.attr == "view":
                inner = n.value.func.value
                kinds.append(_call(inner) or ast.unparse(inner)[:30])
        if len(kinds) != 2: raise TranslateError(f"Vec.__new__: expected two `<conversion>(..).view(cls)` branches, found {kinds}")
        acc = []
        for f in cls.body:
            if isinstance(f, ast.FunctionDef) and f.name in ("x", "y", "z"):
                body = _strip(f.body)
                setter = any(isinstance(d, ast.Attribute) and d.attr == "setter" for d in f.decorator_list)
                if setter:
                    ok = len(body) == 1 and isinstance(body[0], ast.Assign) and isinstance(body[0].targets[0], ast.Subscript) and ast.unparse(body[0].targets[0].value) == "self" \
                        and isinstance(body[0].targets[0].slice, ast.Constant) and _name(body[0].value, f.args.args[1].arg)
                    idx = body[0].targets[0].slice.value if ok else None
                else:
                    ok = len(body) == 1 and isinstance(body[0], ast.Return) and isinstance(body[0].value, ast.Subscript) and ast.unparse(body[0].value.value) == "self" \
                        and isinstance(body[0].value.slice, ast.Constant)
                    idx = body[0].value.slice.value if ok else None
                if not ok: raise TranslateError(f"Vec.{f.name} ({'setter' if setter else 'getter'}): `{ast.unparse(f)[-50:]}`")
                acc.append((f.name + ("=" if setter else ""), idx))
        return ("/-- `Vec.__new__`: the conversion applied to ONE argument / to SEVERAL arguments before `.view(cls)` (`np.asarray` does not copy an ndarray: `Vec(a)` is a view of `a`) -/\n"
                "def vecNewConversions : List String := [" + ", ".join(f'"{k}"' for k in kinds) + "]\n\n"
                "/-- `Vec.x/.y/.z` getters and setters (`name=`): the index they read / write -/\n"
                "def vecAccessors : List (String × Nat) := [" + ", ".join(f'("{a}", {i})' for a, i in acc) + "]\n")
    add("vector.py: Vec.__new__ conversions, Vec.x/.y/.z getters and setters", s_vec_new)
    T.write_generated("C12Vec", "\n".join(chunks) + "\nend Mouette.Generated.C12Vec\n", VEC_HEADER)
    return sites


# ------------------------------------------------------------------------------------------------------------------
# round 7: mouette/geometry/rotations.py, whole bodies of rotate_2d and rotate_around_axis -> lean/Mouette/Generated/C12Rot.lean
# ------------------------------------------------------------------------------------------------------------------
ROT_FILE = "mouette/geometry/rotations.py"
ROT_HEADER = ("import Mouette.Model.Prim\nimport Mouette.Model.FloatOps\nset_option linter.unusedVariables false\nnamespace Mouette.Generated.C12Rot\n"
              "open Mouette Mouette.Prim\n\n"
              "/-! Whole bodies of `rotate_2d` and `rotate_around_axis` over ℚ.  `math.cos` / `math.sin` are the fields of `F : FloatOps ℚ` (nothing assumed\n"
              "here; the theorems take `F.TrigLaws`), `Vec.normalized` is the parameter `N : V3 → V3` (the theorems assume `|N a|² = 1`), a local\n"
              "`Vec(0., 0.[, 0.])` whose components are then assigned is a record updated field by field, `axis.norm() < t` is compared on squares. -/\n\n")


class Rt(Pr):
    def E(self, n):
        d = _call(n) or ""
        if d in ("math.cos", "math.sin", "np.cos", "np.sin", "cos", "sin") and len(n.args) == 1:
            x, xt = self.E(n.args[0])
            if xt == "s": return f"(F.{d.split('.')[-1]} {x})", "s"
        if d == "Vec.normalized" and len(n.args) == 1:
            x, xt = self.E(n.args[0])
            if xt == "v3": return f"(N {x})", "v3"
        if d == "Vec" and len(n.args) in (2, 3) and all(isinstance(a, ast.Constant) and a.value == 0 for a in n.args):
            return ("(⟨0, 0⟩ : V2)", "v2") if len(n.args) == 2 else ("(⟨0, 0, 0⟩ : V3)", "v3")
        if isinstance(n, ast.Subscript) and isinstance(n.slice, ast.Constant) and n.slice.value in (0, 1, 2):
            x, xt = self.E(n.value)
            if xt in ("v2", "v3") and not (xt == "v2" and n.slice.value == 2): return f"{x}.{'xyz'[n.slice.value]}", "s"
        return super().E(n)

    def test(self, t):
        if isinstance(t, ast.BoolOp):
            return "(" + (" || " if isinstance(t.op, ast.Or) else " && ").join(self.test(x) for x in t.values) + ")"
        if isinstance(t, ast.Compare) and len(t.ops) == 1 and isinstance(t.ops[0], (ast.Lt, ast.LtE)):
            a, aty = self.E(t.left); b, bty = self.E(t.comparators[0])
            if "q" in (aty, bty): a, b = self.as_q(t.left, a, aty), self.as_q(t.comparators[0], b, bty)
            elif not (aty == "s" and bty == "s"): raise TranslateError(f"{self.f}: comparison of {aty} with {bty}")
            return f"decide ({a} {'<' if isinstance(t.ops[0], ast.Lt) else '≤'} {b})"
        raise TranslateError(f"{self.f}: test `{ast.unparse(t)[:60]}` is not understood")

    def body(self, stmts):
        if not stmts: raise TranslateError(f"{self.f}: no return")
        st, rest = stmts[0], stmts[1:]
        if isinstance(st, ast.Return):
            t, ty = self.E(st.value)
            return t
        if isinstance(st, ast.If) and not st.orelse and len(st.body) == 1 and isinstance(st.body[0], ast.Return):
            t, _ = self.E(st.body[0].value)
            return f"if {self.test(st.test)} then {t} else\n" + self.body(rest)
        if isinstance(st, ast.Assign) and len(st.targets) == 1:
            tg, val = st.targets[0], st.value
            if _name(tg):
                t, ty = self.E(val)
                self.env[tg.id] = ty
                return f"let v_{tg.id} := {t}\n" + self.body(rest)
            if isinstance(tg, ast.Tuple) and all(_name(e) for e in tg.elts):
                if isinstance(val, ast.Tuple) and len(val.elts) == len(tg.elts):
                    parts = [self.E(e) for e in val.elts]          # right-hand sides first
                    lines = [f"let t{i} := {t}" for i, (t, _) in enumerate(parts)]
                    for i, (e, (_, ty)) in enumerate(zip(tg.elts, parts)):
                        self.env[e.id] = ty; lines.append(f"let v_{e.id} := t{i}")
                    return "\n".join(lines) + "\n" + self.body(rest)
                t, ty = self.E(val)
                if ty == "v3" and len(tg.elts) == 3:                # `u, v, w = axis`
                    lines = []
                    for e, c in zip(tg.elts, "xyz"):
                        self.env[e.id] = "s"; lines.append(f"let v_{e.id} := {t}.{c}")
                    return "\n".join(lines) + "\n" + self.body(rest)
            if isinstance(tg, ast.Attribute) and _name(tg.value) and self.env.get(tg.value.id) in ("v2", "v3") and tg.attr in ("x", "y", "z"):
                t, ty = self.E(val)
                if ty != "s": raise TranslateError(f"{self.f}: component store of a value of type {ty}")
                o = "v_" + tg.value.id
                return f"let {o} := {{ {o} with {tg.attr} := {t} }}\n" + self.body(rest)
        raise TranslateError(f"{self.f}: statement `{ast.unparse(st)[:70]}` is not understood")


def translate_rot():
    sites, chunks = [], []
    try:
        tree, _ = T.load(ROT_FILE)
    except Exception as e:  # noqa
        T.write_generated("C12Rot", "namespace Mouette.Generated.C12Rot\nend Mouette.Generated.C12Rot\n")
        return [{"site": "rotations.py", "ok": False, "detail": f"{type(e).__name__}: {e}"}]
    for lean, py, ptys, ret, extra in (("rotate2d", "rotate_2d", ["v2", "s"], "V2", ""),
                                      ("rotateAroundAxis", "rotate_around_axis", ["v3", "v3", "s"], "V3", " (N : V3 → V3)")):
        def run(lean=lean, py=py, ptys=ptys, ret=ret, extra=extra):
            fn = T.find_def(tree, py)
            names = [a.arg for a in fn.args.args]
            if len(names) != len(ptys): raise TranslateError(f"{py}: parameters {names}")
            fn = Norm().visit(copy.deepcopy(fn)); ast.fix_missing_locations(fn)
            txt = Rt(py, dict(zip(names, ptys))).body(_strip(fn.body))
            ps = " ".join(f"(v_{n} : {LT[t]})" for n, t in zip(names, ptys))
            chunks.append(f"/-- `{py}` -/\ndef {lean} (F : FloatOps Rat){extra} {ps} : {ret} :=\n{ind(txt)}\n")
            return "body compiled"
        sites.append(T.site(f"rotations.py: {py} (whole body)", run))
    T.write_generated("C12Rot", "\n".join(chunks) + "\nend Mouette.Generated.C12Rot\n", ROT_HEADER)
    return sites


# ------------------------------------------------------------------------------------------------------------------
# round 7: geometry.circumcenter, whole body with the frame returned by face_basis as PARAMETERS -> Generated/C12Circ.lean
# ------------------------------------------------------------------------------------------------------------------
CIRC_HEADER = ("import Mouette.Generated.C12Prim\nset_option linter.unusedVariables false\nnamespace Mouette.Generated.C12Circ\nopen Mouette.Prim\n\n"
               "/-! The whole body of `circumcenter` over ℚ.  The three vectors returned by `face_basis(v1, v2, v3)` are the PARAMETERS `X Y Z` (their\n"
               "normalisation needs a square root; `Props/C12V.lean: faceBasis_orthogonal` proves what they are before it, and the theorems of\n"
               "`Props/C12Rt.lean` assume exactly that `(X, Y, Z)` is an orthonormal frame with `Z` normal to the triangle).  `intersect_2lines2D` is the\n"
               "extracted `C12Prim.intersect2`; `S = None` makes `S.x` raise: `none`. -/\n\n")


class Cc(Rt):
    def E(self, n):
        if isinstance(n, ast.BinOp) and isinstance(n.op, ast.Div):
            a, aty = self.E(n.left); b, bty = self.E(n.right)
            if aty in ("v2", "v3") and bty == "s": return f"({self.vops(aty)}.smul (1 / {b}) {a})", aty
        if isinstance(n, ast.Call) and _call(n) == "Vec" and len(n.args) == 3:
            ps = [self.E(a) for a in n.args]
            if all(t == "s" for _, t in ps): return "(⟨" + ", ".join(x for x, _ in ps) + "⟩ : V3)", "v3"
        return super().E(n)


def translate_circ():
    def run():
        tree, _ = T.load(GEOM_FILE)
        fn = T.find_def(tree, "circumcenter")
        names = [a.arg for a in fn.args.args]
        if len(names) != 3: raise TranslateError(f"circumcenter: parameters {names}")
        fn = Norm().visit(copy.deepcopy(fn)); ast.fix_missing_locations(fn)
        body = _strip(fn.body)
        c = Cc("circumcenter", {x: "v3" for x in names})
        st0 = body[0]
        if not (isinstance(st0, ast.Assign) and isinstance(st0.targets[0], ast.Tuple) and len(st0.targets[0].elts) == 3 and _call(st0.value, "face_basis")
                and [ast.unparse(a) for a in st0.value.args] == names and not st0.value.keywords):
            raise TranslateError("circumcenter: expected `X, Y, Z = face_basis(v1, v2, v3)` first")
        frame = [e.id for e in st0.targets[0].elts]
        for x in frame: c.env[x] = "v3"
        lines = []
        rest = body[1:]
        while rest:
            st = rest.pop(0)
            if isinstance(st, ast.Return):
                t, ty = c.E(st.value)
                if ty != "v3": raise TranslateError(f"circumcenter: returns a value of type {ty}")
                lines.append(f"some {t}")
                break
            if not (isinstance(st, ast.Assign) and len(st.targets) == 1): raise TranslateError(f"circumcenter: statement `{ast.unparse(st)[:60]}`")
            tg, val = st.targets[0], st.value
            if isinstance(tg, ast.Tuple) and isinstance(val, ast.GeneratorExp) and len(val.generators) == 1 and isinstance(val.generators[0].iter, ast.Tuple) \
                    and _name(val.generators[0].target) and len(tg.elts) == len(val.generators[0].iter.elts) and not val.generators[0].ifs:
                # `a, b, c = (f(v) for v in (x, y, z))`: every right-hand side first, then the rebinding
                var = val.generators[0].target.id
                outs = []
                for i, src in enumerate(val.generators[0].iter.elts):
                    s_, sty = c.E(src)
                    saved = dict(c.env); c.env[var] = sty
                    body_txt, bty = c.E(val.elt)
                    c.env = saved
                    lines.append(f"let t{i} := (let v_{var} := {s_}; {body_txt})")
                    outs.append(bty)
                for i, (e, bty) in enumerate(zip(tg.elts, outs)):
                    c.env[e.id] = bty; lines.append(f"let v_{e.id} := t{i}")
                continue
            if _name(tg) and _call(val, "intersect_2lines2D") and len(val.args) == 4 and not val.keywords:
                args = [c.E(a) for a in val.args]
                if [t for _, t in args] != ["v2"] * 4: raise TranslateError("circumcenter: arguments of intersect_2lines2D")
                lines += [f"match C12Prim.intersect2 {' '.join(x for x, _ in args)} with", "| none => none", f"| some v_{tg.id} =>"]
                c.env[tg.id] = "v2"
                continue
            if _name(tg):
                t, ty = c.E(val)
                c.env[tg.id] = ty
                lines.append(f"let v_{tg.id} := {t}")
                continue
            raise TranslateError(f"circumcenter: statement `{ast.unparse(st)[:60]}`")
        else:
            raise TranslateError("circumcenter: no return")
        ps = " ".join(f"(v_{x} : V3)" for x in frame + names)
        txt = (f"/-- `circumcenter`, the frame `{', '.join(frame)} = face_basis(..)` given -/\ndef circumcenterIn {ps} : Option V3 :=\n" + ind("\n".join(lines)) + "\n")
        T.write_generated("C12Circ", txt + "\nend Mouette.Generated.C12Circ\n", CIRC_HEADER)
        return "body compiled"

    def guarded():
        try:
            return run()
        except Exception as e:
            msg = str(e).replace("-/", "- /").replace("/-", "/ -")
            T.write_generated("C12Circ", f"/- TRANSLATION FAILED on the current tree: {type(e).__name__}: {msg} -/\ndef translationFailed : Unit := ()\nend Mouette.Generated.C12Circ\n", CIRC_HEADER)
            raise
    return [T.site("geometry.py: circumcenter (whole body, frame of face_basis as parameters)", guarded)]
