"""C13 generators: subdivision scenarios (surface / volume / polyline meshes + operation sequences inside one
editing block). Everything random derives from the rng handed in; cases are plain JSON.

A case:
  {"t":"surf","V":[[x,y,z]..],"F":[[..]..],"ops":[[op,arg?]..],"pre":bool,"tag":str}
      ops: ["fan",fid] split_face_as_fan | ["tf",fid] triangulate_face | ["tri"] triangulate |
           ["loop",n] loop_subdivision | ["q3"] subdivide_triangles_3quads | ["s6",rep] subdivide_triangles_6
      a case whose ops == [["sdb"]] calls split_double_boundary_edges_triangles(mesh) instead of opening a block
  {"t":"vol","V","C","ops":[["cfan",cid] | ["fsp",fid]],"pre","tag"}
  {"t":"poly","V","E","ops":[["es",eid]..],"pre","tag"}
`pre` = connectivity of the input object queried before editing.
"""
from . import mesh as G

BAD_ID = 1000000


# ---- a counter that follows the *documented* element counts (used to pick valid ids; not the code) --------
def track_surface(face_lens, op):
    """face_lens: list of face sizes. Returns the list after `op` per the documentation."""
    L = list(face_lens)

    def tri_face(i):
        n = L[i]
        if n < 4: return
        if n == 4:
            L[i] = 3; L.append(3)
        else:
            L[i] = 3; L.extend([3] * (n - 1))

    def tri_all():
        for i in range(len(L)): tri_face(i)
    k = op[0]
    if k == "fan":
        n = L[op[1]]; L[op[1]] = 3; L.extend([3] * (n - 1))
    elif k == "tf": tri_face(op[1])
    elif k == "tri": tri_all()
    elif k == "loop":
        tri_all(); L = [3] * (len(L) * 4 ** op[1])
    elif k == "q3":
        tri_all(); L = [4] * (3 * len(L))
    elif k == "s6":
        if op[1] > 0:
            tri_all(); L = [3] * (len(L) * 6 ** op[1])
    return L


def surface_ops(rng, F, max_ops, budget_faces, lens=None, want_lens=False):
    lens = [len(f) for f in F] if lens is None else list(lens)
    ops = []
    nops = rng.randint(1, max_ops)
    for _ in range(nops):
        kinds = ["fan", "fan", "tf", "tf", "tri", "loop", "q3", "s6"]
        k = rng.choice(kinds)
        if k in ("fan", "tf"):
            op = [k, rng.randrange(len(lens))]
            if k == "tf" and rng.random() < 0.6:
                big = [i for i, n in enumerate(lens) if n > 3]
                if big: op = [k, rng.choice(big)]
        elif k == "tri": op = ["tri"]
        elif k == "loop": op = ["loop", rng.choice([1, 1, 1, 1, 1, 1, 2, 2, 0])]
        elif k == "q3": op = ["q3"]
        else: op = ["s6", rng.choice([1, 1, 1, 1, 1, 1, 1, 2, 0])]
        new = track_surface(lens, op)
        if len(new) > budget_faces:
            continue
        ops.append(op); lens = new
    if not ops:
        ops = [["fan", 0]]; lens = track_surface(lens, ops[0])
    return (ops, lens) if want_lens else ops


def regular_complex(F):
    """two distinct faces meet in nothing, one vertex, or one common edge (never along two edges, never in two
    vertices that are not a common edge).  Polygon merging / very coarse periodic grids in the shared generator can
    produce such pairs; cutting both faces by the same diagonal is then degenerate.  Such inputs are outside the
    class the check claims (see ASSUMPTIONS)."""
    by_v = {}
    for i, f in enumerate(F):
        for v in f: by_v.setdefault(v, set()).add(i)
    common = {}
    for v, fs in by_v.items():
        fs = sorted(fs)
        for a in range(len(fs)):
            for b in range(a):
                common.setdefault((fs[b], fs[a]), []).append(v)
    for (i, j), vs in common.items():
        if len(vs) > 2: return False
        if len(vs) == 2:
            x, y = vs
            def has_side(f):
                n = len(f)
                return any({f[k], f[(k + 1) % n]} == {x, y} for k in range(n))
            if not (has_side(F[i]) and has_side(F[j])): return False
    return True


def admissible(case):
    """input class of the property (used by the shrinker so that a shrunk replay is still an admissible input)"""
    if case["t"] == "surf":
        st = G.surface_stats(len(case["V"]), case["F"])
        return st["manifold"] and st["unused"] == 0 and regular_complex(case["F"])
    if case["t"] == "vol":
        cnt = {}
        for c in case["C"]:
            if len(set(c)) != 4: return False
            for i in range(4):
                k = tuple(sorted(c[:i] + c[i + 1:])); cnt[k] = cnt.get(k, 0) + 1
        return all(n <= 2 for n in cnt.values()) and len({v for c in case["C"] for v in c}) == len(case["V"])
    return all(a != b for a, b in case["E"]) and len({tuple(sorted(e)) for e in case["E"]}) == len(case["E"])


INT_COORDS = ("pyint", "int64", "int32", "intlist", "inttuple")


def set_rep(rng, case):
    """INPUT REPRESENTATION: integer-valued coordinates (Python ints, int64 / int32 rows, int lists / tuples), float32 rows;
    elements as lists, tuples, numpy rows, numpy int32 scalars.  Integer families get exactly integral coordinates
    (all generator coordinates are multiples of 1/2048)."""
    co = rng.choice(list(INT_COORDS) + ["float32", "float32", "float"])
    el = rng.choice(["list", "tuple", "nprow", "npint32"])
    if co in INT_COORDS:
        V = [[c * 2048 for c in v] for v in case["V"]]
        assert all(float(c).is_integer() for v in V for c in v)
        case["V"] = [[float(int(c)) for c in v] for v in V]
    case["rep"] = {"coords": co, "elems": el}
    return case


def surf_case(rng, max_faces=14, max_ops=3, budget_faces=400, tri_only=False, flat=None, hist=0.25, reps=0.25):
    while True:
        s = G.random_surface(rng, max_faces=max_faces, tri_only=tri_only)
        if regular_complex(s["F"]) or rng.random() < 0.1: break     # a few non-regular inputs stay in (known open finding)
    V, F = s["V"], s["F"]
    tag = s["tag"]
    if flat or (flat is None and rng.random() < 0.25):
        # planar convex faces: scalar area is then well defined for polygons too
        nu, nv = rng.randint(2, 4), rng.randint(2, 4)
        V, F = G.grid(rng, nu, nv, tri=tri_only or rng.random() < 0.3, jitter=False, flat=True)
        if rng.random() < 0.5 and not tri_only:
            # regular n-gon alone
            import math
            n = rng.randint(3, 8)
            V = [[G.dy(2 * math.cos(2 * math.pi * i / n)), G.dy(2 * math.sin(2 * math.pi * i / n)), 0.0] for i in range(n)]
            F = [list(range(n))]
        F = G.rotate_faces(rng, F)
        V = [[float(c) for c in v] for v in V]
        tag = "flat"
    # generic positions: the symmetric families (tori, spheres, regular polygons) otherwise give coincident midpoints at
    # the second refinement level, which the order-free comparison (position bijection) cannot tell apart
    V = [[v[0] + rng.randint(-16, 16) / 2048, v[1] + rng.randint(-16, 16) / 2048,
          v[2] + (0 if tag == "flat" else rng.randint(-16, 16) / 2048)] for v in V]
    ops, lens = surface_ops(rng, F, max_ops, budget_faces, want_lens=True)
    case = {"t": "surf", "V": V, "F": F, "ops": ops, "pre": rng.random() < 0.5, "tag": tag}
    if rng.random() < hist:
        # HISTORY: further editing blocks on the same mesh object (the result of a block is the input of the next)
        blocks = []
        for _ in range(rng.randint(1, 2)):
            b, lens = surface_ops(rng, F, 2, budget_faces, lens=lens, want_lens=True)
            blocks.append(b)
        case["blocks"] = blocks; case["probe_between"] = rng.random() < 0.6
        case["reuse_editor"] = rng.random() < 0.5        # the same SurfaceSubdivision object serves all the blocks
    if rng.random() < reps:
        set_rep(rng, case)
    if "blocks" not in case and rng.random() < 0.05:
        # an id that does not exist: the code must raise IndexError, and still not leave the input half-updated
        case["ops"] = ops + [[rng.choice(["fan", "tf"]), BAD_ID]]; case["bad"] = len(ops)
    return case


def sdb_case(rng):
    """triangle meshes with 'ear' triangles (two border edges) for split_double_boundary_edges_triangles"""
    while True:
        s = G.random_surface(rng, max_faces=16, tri_only=True, disk=rng.random() < 0.7)
        if regular_complex(s["F"]): break
    case = {"t": "surf", "V": s["V"], "F": s["F"], "ops": [["sdb"]], "pre": rng.random() < 0.5, "tag": s["tag"] + "/sdb"}
    if rng.random() < 0.4:
        # HISTORY: the mesh returned by split_double_boundary_edges_triangles goes through an editing block
        case["blocks"] = [[rng.choice([["tri"], ["loop", 1], ["q3"]])]]; case["probe_between"] = rng.random() < 0.6
    return case


def vol_case(rng, max_cells=12, max_ops=3, orient=None, hist=0.25, reps=0.25):
    orient = orient or rng.choice(["positive", "positive", "negative", "mixed"])
    s = G.random_tets(rng, max_cells=max_cells, orient=orient)
    V, C = s["V"], s["C"]
    nC = len(C)
    # faces of the prepared input: count distinct triangles
    keys = set()
    for c in C:
        for i in range(4):
            keys.add(tuple(sorted(c[:i] + c[i + 1:])))
    nF = len(keys)
    ops = []
    for _ in range(rng.randint(1, max_ops)):
        if rng.random() < 0.5:
            ops.append(["cfan", rng.randrange(nC)]); nC += 3
        else:
            # ids of faces existing *now* in the raw face list: the prepared ones + 2 per earlier face split
            ops.append(["fsp", rng.randrange(nF)]); nF += 2; nC += 2   # (cells: +2 or +4; only a lower bound is needed)
    case = {"t": "vol", "V": V, "C": C, "ops": ops, "pre": rng.random() < 0.5, "tag": s["tag"]}
    if rng.random() < hist:
        blocks = []
        for _ in range(rng.randint(1, 2)):
            b = []
            for _ in range(rng.randint(1, 2)):
                if rng.random() < 0.5:
                    b.append(["cfan", rng.randrange(nC)]); nC += 3
                else:
                    b.append(["fsp", rng.randrange(nF)]); nF += 2; nC += 2
            blocks.append(b)
            nF += 0   # (faces completed on exit only add ids; the ids used stay valid)
        case["blocks"] = blocks; case["probe_between"] = rng.random() < 0.6
        case["reuse_editor"] = rng.random() < 0.5
    if rng.random() < reps:
        set_rep(rng, case)
    if "blocks" not in case and rng.random() < 0.05:
        case["ops"] = ops + [[rng.choice(["cfan", "fsp"]), BAD_ID]]; case["bad"] = len(ops)
    return case


def poly_case(rng, max_v=10, max_ops=4):
    s = G.random_polyline(rng, max_v=max_v)
    nE = len(s["E"])
    ops = []
    for _ in range(rng.randint(1, max_ops)):
        ops.append(["es", rng.randrange(nE)]); nE += 1
    case = {"t": "poly", "V": s["V"], "E": s["E"], "ops": ops, "pre": rng.random() < 0.5, "tag": s["tag"]}
    if rng.random() < 0.25:
        b = []
        for _ in range(rng.randint(1, 2)):
            b.append(["es", rng.randrange(nE)]); nE += 1
        case["blocks"] = [b]; case["probe_between"] = True      # connectivity queried between two split_edge calls
    if rng.random() < 0.25:
        set_rep(rng, case)
    if "blocks" not in case and rng.random() < 0.05:
        case["ops"] = ops + [["es", BAD_ID]]; case["bad"] = len(ops)
    elif rng.random() < 0.4:
        case["probe_ops"] = True        # HISTORY: edge_id / vertex_to_edges / vertex_to_vertices queried after EVERY split_edge
    return case


# ---- fixed small scenarios (always run first; they include the shapes the defects were first seen on) -----
def fixed_cases():
    sq = [[0.0, 0.0, 0.0], [1.0, 0.0, 0.0], [1.0, 1.0, 0.0], [0.0, 1.0, 0.0]]
    tri = [[0.0, 0.0, 0.0], [1.0, 0.0, 0.0], [0.0, 1.0, 0.0]]
    two = [[0.0, 0.0, 0.0], [1.0, 0.0, 0.0], [0.0, 1.0, 0.0], [1.0, 1.0, 0.5]]
    out = []
    for pre in (False, True):
        out += [
            {"t": "poly", "V": tri, "E": [[0, 1], [1, 2]], "ops": [["es", 0]], "pre": pre, "tag": "fixed"},
            {"t": "poly", "V": tri, "E": [[0, 1], [1, 2], [0, 2]], "ops": [["es", 2], ["es", 3]], "pre": pre, "tag": "fixed"},
            {"t": "poly", "V": tri, "E": [[0, 1], [1, 2], [0, 2]], "ops": [["es", 0], ["es", 0], ["es", 3]], "pre": pre, "probe_ops": True, "tag": "fixed"},
            {"t": "surf", "V": two, "F": [[0, 1, 2], [1, 3, 2]], "ops": [["loop", 1]], "pre": pre, "tag": "fixed"},
            {"t": "surf", "V": two, "F": [[0, 1, 2], [1, 3, 2]], "ops": [["fan", 0]], "pre": pre, "tag": "fixed"},
            {"t": "surf", "V": two, "F": [[0, 1, 2], [1, 3, 2]], "ops": [["q3"]], "pre": pre, "tag": "fixed"},
            {"t": "surf", "V": two, "F": [[0, 1, 2], [1, 3, 2]], "ops": [["s6", 1]], "pre": pre, "tag": "fixed"},
            {"t": "surf", "V": tri, "F": [[0, 1, 2]], "ops": [["s6", 2]], "pre": pre, "tag": "fixed"},
            {"t": "surf", "V": tri, "F": [[0, 1, 2]], "ops": [["q3"], ["loop", 1]], "pre": pre, "tag": "fixed"},
            {"t": "surf", "V": tri, "F": [[0, 1, 2]], "ops": [["loop", 2]], "pre": pre, "tag": "fixed"},
            {"t": "surf", "V": sq, "F": [[0, 1, 2, 3]], "ops": [["tri"]], "pre": pre, "tag": "fixed"},
            {"t": "surf", "V": sq, "F": [[0, 1, 2, 3]], "ops": [["loop", 1]], "pre": pre, "tag": "fixed"},
            {"t": "surf", "V": sq, "F": [[0, 1, 2, 3]], "ops": [["q3"]], "pre": pre, "tag": "fixed"},
            {"t": "surf", "V": sq, "F": [[0, 1, 2, 3]], "ops": [["s6", 1]], "pre": pre, "tag": "fixed"},
            {"t": "surf", "V": sq, "F": [[0, 1, 2, 3]], "ops": [["tf", 0], ["fan", 1]], "pre": pre, "tag": "fixed"},
            {"t": "vol", "V": [[0.0, 0, 0], [1.0, 0, 0], [0, 1.0, 0], [0, 0, 1.0]], "C": [[0, 1, 2, 3]],
             "ops": [["cfan", 0]], "pre": pre, "tag": "fixed"},
            {"t": "vol", "V": [[0.0, 0, 0], [1.0, 0, 0], [0, 1.0, 0], [0, 0, 1.0], [1.0, 1.0, 1.0]], "C": [[0, 1, 2, 3], [1, 2, 3, 4]],
             "ops": [["fsp", 0]], "pre": pre, "tag": "fixed"},
            {"t": "vol", "V": [[0.0, 0, 0], [1.0, 0, 0], [0, 1.0, 0], [0, 0, 1.0]], "C": [[0, 1, 2, 3]],
             "ops": [["fsp", 0], ["fsp", 2]], "pre": pre, "tag": "fixed"},
            {"t": "vol", "V": [[0.0, 0, 0], [1.0, 0, 0], [0, 1.0, 0], [0, 0, 1.0]], "C": [[0, 1, 2, 3]],
             "ops": [["cfan", 0], ["fsp", 1]], "pre": pre, "tag": "fixed"},
        ]
    for c in out:
        c["V"] = [[float(x) for x in v] for v in c["V"]]
    return out
