"""C13 translated function BODIES: Python `ast` -> Lean (lean/Mouette/Generated/C13Src.lean), re-extracted on every run from
$MOUETTE_REPO/mouette/mesh/subdivision.py.

Every operation of `subdivision.py` on the whitelist is read IMPERATIVELY and compiled to a state-passing Lean definition
`Raw -> args -> Except Err Raw` over the containers of the hand model (vocabulary: Model/SubdivSource.lean):

  statement forms   local `v = e`; `a, b = X.edges[i]`; `a, b, c = f` (unpack3 / unpack4); `pA, pB = (X.vertices[v] for v in (A, B))`;
                    `X.append(e)`, `X += e`, `X[i] = e` on the containers of `self.mesh` / `polyline` / a local `RawMeshData()`,
                    on local lists, dicts (`d[k] = v`) and sets (`s.add(e)`); `self.mesh = <local RawMeshData>`;
                    guards `if c: return` / `if c: continue`, `if / elif / else`; `self.method(args)`;
                    `for v in <range | X.id_faces | X.edges | list | enumerate(X.faces) | comprehension>` -> `foldE` whose state
                    is the tuple of the variables the body writes; `for v in [literal, ...]` is unrolled;
                    `X.connectivity.clear()` is recorded in `effects`; log calls / docstrings are dropped.
  expressions       `len`, integer arithmetic, `keyify`, reads `X[i]` (raise IndexError -> `Err.index`), dict reads (KeyError),
                    point arithmetic `P + Q`, `P / k`, `P / len(f)`, `c * P`, `sum([..])`, list / tuple literals of indices.

Tolerated respellings (normalised away: the generated text, hence the bridges, do not change): renamed locals and parameters
(canonical names x1, x2, ... in order of first binding); `a > b` = `b < a`; `a >= b` = `b <= a`; `not a == b` = `a != b`; operand order
of `==` / `!=`; `X * (1/k)` = `(1/k) * X` = `X / k`, `0.25 * X` = `X / 4`; `x += [e]` = `x.append(e)`;
`for e in X.id_edges: A, B = X.edges[e]` = `for (A, B) in X.edges`; `for i, F in enumerate(X.faces)` = `for i in X.id_faces` with
`F = X.faces[i]`; docstrings, comments, `pass`, log calls, type annotations, decorators.
Anything else raises TranslateError -> the site is a broken obligation -> failing-input search (props/c13.py).
"""
import ast
import copy
from fractions import Fraction

from .. import translate as T
from ..translate import TranslateError

FILE = "mouette/mesh/subdivision.py"

FIELD = {"vertices": ("verts", "pt"), "edges": ("edges", "edge"), "faces": ("faces", "natlist"), "cells": ("cells", "natlist")}
IDS = {"id_vertices": "vertices", "id_edges": "edges", "id_faces": "faces", "id_cells": "cells"}
LTY = {"nat": "Nat", "pt": "Pt", "natlist": "List Nat", "edge": "Nat × Nat", "mesh": "Raw", "nll": "List (List Nat)",
       "dictE": "Dict (Nat × Nat)", "dictN": "Dict Nat", "eset": "List (Nat × Nat)", "ptlist": "List Pt", "inat": "Nat × List Nat"}
LEAN_NAME = {"split_edge": "splitEdge", "triangulate_face": "triangulateFace", "split_face_as_fan": "splitFaceAsFan",
             "triangulate": "triangulate", "loop_subdivision": "loopSubdivision", "subdivide_triangles_6": "sub6",
             "subdivide_triangles_3quads": "quads3", "split_cell_as_fan": "splitCellAsFan",
             "split_tet_from_face_center": "splitTetFromFaceCenter",
             "split_double_boundary_edges_triangles": "splitDoubleBoundary"}
# (qualified python name, mesh parameter or None for `self.mesh`, types of the other parameters); dependency order
ORDER = [("split_edge", "polyline", ["nat"]),
         ("SurfaceSubdivision.split_face_as_fan", None, ["nat"]),
         ("SurfaceSubdivision.triangulate_face", None, ["nat"]),
         ("SurfaceSubdivision.triangulate", None, []),
         ("SurfaceSubdivision.loop_subdivision", None, ["nat"]),
         ("SurfaceSubdivision.subdivide_triangles_3quads", None, []),
         ("SurfaceSubdivision.subdivide_triangles_6", None, ["nat"]),
         ("VolumeSubdivision.split_cell_as_fan", None, ["nat"]),
         ("VolumeSubdivision.split_tet_from_face_center", None, ["nat"]),
         ("split_double_boundary_edges_triangles", "mesh", [])]


def _callfree(n):
    return not any(isinstance(x, ast.Call) for x in ast.walk(n))


class Norm(ast.NodeTransformer):
    def visit_UnaryOp(self, n):
        self.generic_visit(n)
        if isinstance(n.op, ast.Not) and isinstance(n.operand, ast.Compare) and len(n.operand.ops) == 1:
            c = n.operand
            flip = {ast.Eq: ast.NotEq, ast.NotEq: ast.Eq, ast.In: ast.NotIn, ast.NotIn: ast.In, ast.Lt: ast.GtE, ast.GtE: ast.Lt,
                    ast.Gt: ast.LtE, ast.LtE: ast.Gt}
            if type(c.ops[0]) in flip:
                return self.visit_Compare(ast.copy_location(ast.Compare(c.left, [flip[type(c.ops[0])]()], c.comparators), n))
        return n

    def visit_Compare(self, n):
        self.generic_visit(n)
        if len(n.ops) == 1:
            op, a, b = n.ops[0], n.left, n.comparators[0]
            if isinstance(op, (ast.Gt, ast.GtE)):
                return ast.copy_location(ast.Compare(b, [ast.Lt() if isinstance(op, ast.Gt) else ast.LtE()], [a]), n)
        return n

    def visit_AnnAssign(self, n):
        self.generic_visit(n)
        if n.value is None: return None
        return ast.copy_location(ast.Assign([n.target], n.value), n)

    def visit_AugAssign(self, n):
        self.generic_visit(n)
        # `x += [e]` on a container = `x.append(e)`
        if isinstance(n.op, ast.Add) and isinstance(n.value, ast.List) and len(n.value.elts) >= 1:
            return [ast.copy_location(ast.Expr(ast.Call(ast.Attribute(copy.deepcopy(n.target), "append", ast.Load()), [e], [])), n)
                    for e in n.value.elts]
        return n


def _is_log(s):
    if isinstance(s, ast.Expr) and isinstance(s.value, ast.Call):
        f = s.value.func
        if isinstance(f, ast.Attribute) and isinstance(f.value, ast.Name) and f.value.id == "self" and f.attr in ("log", "warn", "debug"):
            return True
        if isinstance(f, ast.Name) and f.id == "print": return True
    return False


def _strip(stmts):
    return [s for s in stmts if not (isinstance(s, ast.Pass) or _is_log(s) or (isinstance(s, ast.Expr) and isinstance(s.value, ast.Constant)))]


def _name_used(stmts, name):
    return any(isinstance(x, ast.Name) and x.id == name for s in stmts for x in ast.walk(s))


class Fn:
    """one function being compiled"""

    def __init__(self, unit, qual, meshparam, ptypes):
        self.u = unit
        self.qual = qual
        self.py = qual.split(".")[-1]
        self.lean = LEAN_NAME[self.py]
        fn = T.find_def(unit.tree, qual)
        fn = Norm().visit(copy.deepcopy(fn)); ast.fix_missing_locations(fn)
        self.fn = fn
        a = fn.args
        if a.vararg or a.kwarg or a.kwonlyargs or a.posonlyargs: raise TranslateError(f"{qual}: unsupported signature")
        names = [x.arg for x in a.args]
        self.is_method = "." in qual
        if self.is_method:
            if not names or names[0] != "self": raise TranslateError(f"{qual}: first parameter is not self")
            names = names[1:]
        self.meshparam = None
        if meshparam is not None:
            if not names: raise TranslateError(f"{qual}: mesh parameter missing")
            self.meshparam = names[0]; names = names[1:]          # whatever it is called
        if len(names) != len(ptypes): raise TranslateError(f"{qual}: expected {len(ptypes)} parameters, found {names}")
        self.env = {}            # python name -> (lean name, type)
        self.order = ["m"]       # lean names in order of first binding
        self.params = []
        for i, (p, t) in enumerate(zip(names, ptypes)):
            self.env[p] = (f"p{i + 1}", t); self.params.append((f"p{i + 1}", t)); self.order.append(f"p{i + 1}")
        if self.meshparam: self.env[self.meshparam] = ("m", "mesh")
        self.nx = 0
        self.nt = 0
        self.effects = []
        self.brk = []            # per enclosing loop with a `break`: the expression a `break` ends the iteration with
        self.editor = None       # the name bound by `with SurfaceSubdivision(mesh) as <name>`
        self.kinds = self._scan_kinds()

    # ---- names ---------------------------------------------------------------------------------------------------
    def fresh(self, py, ty):
        self.nx += 1
        nm = f"x{self.nx}"
        self.env[py] = (nm, ty); self.order.append(nm)
        return nm

    def tmp(self):
        self.nt += 1
        return f"t{self.nt}"

    def bind(self, py, ty):
        """(re)binding of a python local: a name already bound keeps its Lean name when the type is the same"""
        if py in self.env and self.env[py][1] == ty: return self.env[py][0]
        return self.fresh(py, ty)

    def _scan_kinds(self):
        """kind of the local dicts: keyed by keyify(..) or by an index; kind of the local lists started empty"""
        kinds = {}
        self.list_kinds = {}
        for n in ast.walk(self.fn):
            if isinstance(n, ast.Call) and isinstance(n.func, ast.Attribute) and n.func.attr == "append" and isinstance(n.func.value, ast.Name) \
                    and len(n.args) == 1 and isinstance(n.args[0], ast.Name):
                idxs = set()
                for f in ast.walk(self.fn):
                    if isinstance(f, ast.For):
                        if isinstance(f.target, ast.Name) and (isinstance(f.iter, ast.Attribute) or (isinstance(f.iter, ast.Call) and getattr(f.iter.func, "id", "") == "range")):
                            idxs.add(f.target.id)
                        if isinstance(f.target, ast.Tuple) and isinstance(f.iter, ast.Call) and getattr(f.iter.func, "id", "") == "enumerate" \
                                and isinstance(f.target.elts[0], ast.Name):
                            idxs.add(f.target.elts[0].id)
                self.list_kinds.setdefault(n.func.value.id, "natlist" if n.args[0].id in idxs else "nll")
        for n in ast.walk(self.fn):
            if isinstance(n, ast.Assign) and len(n.targets) == 1 and isinstance(n.targets[0], ast.Subscript) and isinstance(n.targets[0].value, ast.Name):
                k = n.targets[0].slice
                kinds.setdefault(n.targets[0].value.id, "dictE" if (isinstance(k, ast.Call) and getattr(k.func, "id", "") == "keyify") else "dictN")
        return kinds

    # ---- meshes and containers -------------------------------------------------------------------------------------
    def mesh_of(self, n):
        if self.is_method and isinstance(n, ast.Attribute) and isinstance(n.value, ast.Name) and n.value.id == "self" and n.attr == "mesh":
            return "m"
        if isinstance(n, ast.Name) and n.id in self.env and self.env[n.id][1] == "mesh":
            return self.env[n.id][0]
        return None

    def container(self, n):
        if isinstance(n, ast.Attribute) and n.attr in FIELD:
            mv = self.mesh_of(n.value)
            if mv: return mv, FIELD[n.attr][0], FIELD[n.attr][1]
        return None

    # ---- expressions -------------------------------------------------------------------------------------------------
    def ex(self, n, pre):
        """-> (lean term, type); raising reads are bound in `pre` (list of lines) in evaluation order"""
        if isinstance(n, ast.Constant):
            if isinstance(n.value, bool) or not isinstance(n.value, int) or n.value < 0: raise TranslateError(f"{self.py}: constant {n.value!r}")
            return str(n.value), "nat"
        if isinstance(n, ast.Name):
            if n.id not in self.env: raise TranslateError(f"{self.py}: unknown name `{n.id}`")
            return self.env[n.id]
        if isinstance(n, ast.Call):
            return self.call(n, pre)
        if isinstance(n, ast.Subscript) and isinstance(n.value, ast.Name) and self.env.get(n.value.id, ("", ""))[1] in ("dictE", "dictN"):
            return self.dict_read(n, pre)
        if isinstance(n, ast.Subscript):
            c = self.container(n.value)
            i, ti = self.ex(n.slice, pre)
            if ti != "nat": raise TranslateError(f"{self.py}: index of type {ti} in `{ast.unparse(n)}`")
            if c:
                t = self.tmp(); pre.append(f"let {t} ← idx {c[0]}.{c[1]} {self.par(i)}")
                return t, c[2]
            b, tb = self.ex(n.value, pre)
            if tb == "natlist":
                t = self.tmp(); pre.append(f"let {t} ← idx {self.par(b)} {self.par(i)}"); return t, "nat"
            if tb == "nll":
                t = self.tmp(); pre.append(f"let {t} ← idx {self.par(b)} {self.par(i)}"); return t, "natlist"
            if tb == "dictN":
                t = self.tmp(); pre.append(f"let {t} ← dgetE {b} {self.par(i)}"); return t, "nat"
            raise TranslateError(f"{self.py}: subscript of a {tb} in `{ast.unparse(n)}`")
        if isinstance(n, ast.Subscript) or isinstance(n, ast.Attribute):
            raise TranslateError(f"{self.py}: expression `{ast.unparse(n)}`")
        if isinstance(n, (ast.List, ast.Tuple)):
            parts = [self.ex(e, pre) for e in n.elts]
            if all(t == "nat" for _, t in parts):
                return "[" + ", ".join(p for p, _ in parts) + "]", "natlist"
            if all(t == "natlist" for _, t in parts):
                return "[" + ", ".join(p for p, _ in parts) + "]", "nll"
            raise TranslateError(f"{self.py}: literal `{ast.unparse(n)}`")
        if isinstance(n, ast.BinOp):
            return self.binop(n, pre)
        if isinstance(n, ast.ListComp):
            return self.listcomp(n, pre)
        raise TranslateError(f"{self.py}: expression `{ast.unparse(n)[:80]}` not understood")

    @staticmethod
    def par(s):
        return s if s.replace("_", "").replace(".", "").isalnum() else f"({s})"

    def dict_read(self, n, pre):
        """`d[keyify(a, b)]`"""
        b, tb = self.ex(n.value, pre)
        k, tk = self.ex(n.slice, pre)
        if (tb, tk) not in (("dictE", "edge"), ("dictN", "nat")): raise TranslateError(f"{self.py}: dict read `{ast.unparse(n)}`")
        t = self.tmp(); pre.append(f"let {t} ← dgetE {b} {self.par(k)}")
        return t, "nat"

    def call(self, n, pre):
        f = n.func
        if isinstance(f, ast.Name):
            if f.id == "len" and len(n.args) == 1:
                c = self.container(n.args[0])
                if c: return f"{c[0]}.{c[1]}.length", "nat"
                a, ta = self.ex(n.args[0], pre)
                if ta in ("natlist", "nll", "ptlist"): return f"{a}.length", "nat"
                raise TranslateError(f"{self.py}: len of a {ta}")
            if f.id == "keyify":
                if len(n.args) == 2:
                    a, ta = self.ex(n.args[0], pre); b, tb = self.ex(n.args[1], pre)
                    if ta == tb == "nat": return f"keyify {self.par(a)} {self.par(b)}", "edge"
                elif len(n.args) == 1:
                    arg = n.args[0]
                    if isinstance(arg, (ast.Tuple, ast.List)) and len(arg.elts) == 2:
                        a, ta = self.ex(arg.elts[0], pre); b, tb = self.ex(arg.elts[1], pre)
                        if ta == tb == "nat": return f"keyify {self.par(a)} {self.par(b)}", "edge"
                    else:
                        a, ta = self.ex(arg, pre)
                        if ta == "edge": return f"keyify {a}.1 {a}.2", "edge"
                raise TranslateError(f"{self.py}: `{ast.unparse(n)}`")
            if f.id == "Vec" and len(n.args) == 1:
                a, ta = self.ex(n.args[0], pre)
                if ta == "pt": return a, ta
                raise TranslateError(f"{self.py}: Vec of a {ta}")
            if f.id == "sum" and len(n.args) == 1:
                a, ta = self.ex(n.args[0], pre)
                if ta == "ptlist": return f"sumPts {self.par(a)}", "pt"
                raise TranslateError(f"{self.py}: sum of a {ta}")
            if f.id in ("list", "set") and len(n.args) == 1:
                a, ta = self.ex(n.args[0], pre)
                if f.id == "list" and ta in ("eset", "natlist"): return a, ta
                if f.id == "set" and ta == "natlist": return a, ta          # `set(f)`: kept as the list (membership tests only)
                raise TranslateError(f"{self.py}: `{ast.unparse(n)}`")
            if f.id == "RawMeshData" and not n.args: return "Raw.empty", "mesh"
            if f.id == "dict" and not n.args: return "[]", "dict?"
            if f.id == "set" and not n.args: return "[]", "eset"
        if isinstance(f, ast.Attribute) and f.attr == "issubset" and len(n.args) == 1:
            a, ta = self.ex(f.value, pre); b, tb = self.ex(n.args[0], pre)
            if ta == tb == "natlist": return f"isSubset {self.par(a)} {self.par(b)}", "bool"
        raise TranslateError(f"{self.py}: call `{ast.unparse(n)[:80]}` not understood")

    def _recip(self, n):
        """`1/k`, `1/len(f)`, or a float constant equal to 1/k -> the divisor node/int, else None"""
        if isinstance(n, ast.BinOp) and isinstance(n.op, ast.Div) and isinstance(n.left, ast.Constant) and n.left.value in (1, 1.0):
            return n.right
        if isinstance(n, ast.Constant) and isinstance(n.value, float) and n.value > 0:
            fr = Fraction(n.value)
            if fr.numerator == 1: return ast.Constant(fr.denominator)
        return None

    def binop(self, n, pre):
        op = n.op
        if isinstance(op, ast.Mult):
            for a, b in ((n.left, n.right), (n.right, n.left)):
                r = self._recip(a)
                if r is not None:
                    return self.binop(ast.BinOp(b, ast.Div(), r), pre)
        if isinstance(op, ast.Add) and all(isinstance(x, ast.Subscript) and self.container(x.value) and isinstance(x.slice, ast.Name)
                                           and x.slice.id in self.env for x in (n.left, n.right)):
            # the sum of two points read from a container: commutative, both reads raise the same exception
            a, b = sorted((n.left, n.right), key=lambda x: int(self.env[x.slice.id][0][1:]) if self.env[x.slice.id][0][1:].isdigit() else 0)
            n = ast.BinOp(a, op, b)
        if isinstance(op, ast.Mult) and isinstance(n.left, ast.List) and len(n.left.elts) == 1 and isinstance(n.left.elts[0], ast.Constant) \
                and n.left.elts[0].value == 0 and not isinstance(n.left.elts[0].value, bool):
            r, tr = self.ex(n.right, pre)
            if tr == "nat": return f"List.replicate {self.par(r)} 0", "natlist"
        l, tl = self.ex(n.left, pre)
        r, tr = self.ex(n.right, pre)
        if tl == tr == "nat":
            sym = {ast.Add: "+", ast.Sub: "-", ast.Mult: "*", ast.FloorDiv: "/", ast.Mod: "%"}.get(type(op))
            if sym: return f"{self.par(l)} {sym} {self.par(r)}", "nat"
        if tl == tr == "pt" and isinstance(op, ast.Add): return f"Pt.add {self.par(l)} {self.par(r)}", "pt"
        if tl == "pt" and tr == "nat" and isinstance(op, ast.Div): return f"Pt.divn {self.par(l)} {self.par(r)}", "pt"
        raise TranslateError(f"{self.py}: operation `{ast.unparse(n)[:80]}` on {tl}, {tr}")

    def listcomp(self, n, pre):
        if len(n.generators) != 1 or n.generators[0].is_async: raise TranslateError(f"{self.py}: comprehension `{ast.unparse(n)[:60]}`")
        g = n.generators[0]
        saved = dict(self.env)
        try:
            # `[x for x in L]` : a copy
            if isinstance(g.target, ast.Name) and not g.ifs and isinstance(n.elt, ast.Name) and n.elt.id == g.target.id:
                a, ta = self.ex(g.iter, pre)
                if ta == "natlist": return a, ta
            # `[c for c in X.id_cells if p(X.cells[c])]`
            if isinstance(g.target, ast.Name) and isinstance(g.iter, ast.Attribute) and g.iter.attr in IDS and len(g.ifs) == 1 \
                    and isinstance(n.elt, ast.Name) and n.elt.id == g.target.id:
                mv = self.mesh_of(g.iter.value)
                fld = FIELD[IDS[g.iter.attr]]
                if mv and fld[1] == "natlist":
                    cond = self._subst_read(g.ifs[0], g.iter.value, IDS[g.iter.attr], g.target.id, "__elem")
                    self.env["__elem"] = ("y", "natlist")
                    p2 = []
                    c = self.cond(cond, p2, as_bool=True)
                    if p2: raise TranslateError(f"{self.py}: raising read inside a comprehension condition")
                    return f"filterIdx (fun y => {c}) {mv}.{fld[0]}", "natlist"
            # `[i for i, x in enumerate(L) if p(x)]`
            if isinstance(g.target, ast.Tuple) and len(g.target.elts) == 2 and isinstance(g.iter, ast.Call) and getattr(g.iter.func, "id", "") == "enumerate" \
                    and len(g.ifs) == 1 and isinstance(n.elt, ast.Name) and n.elt.id == g.target.elts[0].id:
                a, ta = self.ex(g.iter.args[0], pre)
                if ta == "natlist":
                    self.env[g.target.elts[1].id] = ("y", "nat")
                    p2 = []
                    c = self.cond(g.ifs[0], p2, as_bool=True)
                    if p2: raise TranslateError(f"{self.py}: raising read inside a comprehension condition")
                    return f"filterIdx (fun y => {c}) {self.par(a)}", "natlist"
            # `[E(a) for a in f]` with E a point read
            if isinstance(g.target, ast.Name) and not g.ifs:
                a, ta = self.ex(g.iter, pre)
                if ta == "natlist":
                    self.env[g.target.id] = ("y", "nat")
                    p2 = []
                    e, te = self.ex(n.elt, p2)
                    if te == "pt" and len(p2) == 1 and p2[0].startswith(f"let {e} ← "):
                        t = self.tmp()
                        pre.append(f"let {t} ← mapE (fun y => {p2[0].split('← ', 1)[1]}) {self.par(a)}")
                        return t, "ptlist"
            raise TranslateError(f"{self.py}: comprehension `{ast.unparse(n)[:80]}` not understood")
        finally:
            self.env = saved

    @staticmethod
    def _subst_read(node, mesh_node, field, var, newname):
        """replaces `<mesh>.<field>[var]` by the name `newname`; `var` must not occur otherwise"""
        md = ast.dump(mesh_node)

        class R(ast.NodeTransformer):
            def visit_Subscript(self, s):
                if isinstance(s.value, ast.Attribute) and s.value.attr == field and ast.dump(s.value.value) == md \
                        and isinstance(s.slice, ast.Name) and s.slice.id == var:
                    return ast.copy_location(ast.Name(newname, ast.Load()), s)
                self.generic_visit(s); return s
        out = R().visit(copy.deepcopy(node))
        if any(isinstance(x, ast.Name) and x.id == var for x in ast.walk(out)):
            raise TranslateError(f"index `{var}` used for something else than reading `{field}`")
        return out

    def _truthy(self, n, as_bool):
        """`len(x) > 0` (normalised to `0 < len(x)`), `len(x) != 0` on a list local = the truthiness of the list"""
        if isinstance(n, ast.Compare) and len(n.ops) == 1 and not as_bool:
            a, b, o = n.left, n.comparators[0], n.ops[0]
            is0 = lambda z: isinstance(z, ast.Constant) and z.value == 0 and not isinstance(z.value, bool)
            lenof = lambda z: z.args[0] if (isinstance(z, ast.Call) and getattr(z.func, "id", "") == "len" and len(z.args) == 1
                                            and isinstance(z.args[0], ast.Name)) else None
            x = lenof(b) if (isinstance(o, (ast.Lt, ast.NotEq)) and is0(a)) else lenof(a) if (isinstance(o, ast.NotEq) and is0(b)) else None
            if x is not None and self.env.get(x.id, ("", ""))[1] == "natlist": return x
        return n

    def cond(self, n, pre, as_bool=False):
        n = self._truthy(n, as_bool)
        if isinstance(n, ast.Compare) and len(n.ops) == 1:
            op = n.ops[0]
            if isinstance(op, (ast.In, ast.NotIn)):
                a, ta = self.ex(n.left, pre); b, tb = self.ex(n.comparators[0], pre)
                if ta == "nat" and tb == "natlist":
                    c = f"{self.par(b)}.elem {self.par(a)}"
                    if isinstance(op, ast.NotIn): c = f"!({c})"
                    return c if as_bool else f"({c}) = true"
                raise TranslateError(f"{self.py}: membership `{ast.unparse(n)}`")
            a, ta = self.ex(n.left, pre); b, tb = self.ex(n.comparators[0], pre)
            if ta == tb == "nat":
                if isinstance(op, (ast.Eq, ast.NotEq)) and a > b: a, b = b, a
                sym = {ast.Lt: "<", ast.LtE: "≤", ast.Eq: "=", ast.NotEq: "≠"}.get(type(op))
                if sym:
                    c = f"{self.par(a)} {sym} {self.par(b)}"
                    return f"decide ({c})" if as_bool else c
        if isinstance(n, ast.Call):
            c, tc = self.ex(n, pre)
            if tc == "bool": return c if as_bool else f"{c} = true"
        if isinstance(n, ast.Name) and n.id in self.env and self.env[n.id][1] == "natlist" and not as_bool:
            return f"{self.env[n.id][0]} ≠ []"                      # `if pb_faces:`
        raise TranslateError(f"{self.py}: condition `{ast.unparse(n)[:80]}` not understood")

    # ---- statements ------------------------------------------------------------------------------------------------------
    def written(self, stmts, outer):
        """lean names (bound before, i.e. in `outer`) that the statements write"""
        w = set()

        def lean_of(name):
            return outer[name][0] if name in outer else None

        def target_var(t):
            c = self.container(t)
            if c: return c[0]
            if isinstance(t, ast.Name): return lean_of(t.id)
            if self.mesh_of(t): return "m"
            return None
        for s in stmts:
            for n in ast.walk(s):
                tg = []
                if isinstance(n, ast.Assign): tg = n.targets
                elif isinstance(n, ast.AugAssign): tg = [n.target]
                for t in tg:
                    for e in (t.elts if isinstance(t, ast.Tuple) else [t]):
                        v = target_var(e.value if isinstance(e, ast.Subscript) else e)
                        if v: w.add(v)
                if isinstance(n, ast.Call) and isinstance(n.func, ast.Attribute):
                    if n.func.attr in ("append", "add", "extend", "clear", "pop", "insert", "remove"):
                        v = target_var(n.func.value)
                        if v: w.add(v)
                    if isinstance(n.func.value, ast.Name) and n.func.attr in LEAN_NAME:
                        w.add("m")
        return [v for v in self.order if v in w]

    def ty_of(self, lean):
        if lean == "m": return "mesh"
        for (nm, ty) in self.env.values():
            if nm == lean: return ty
        raise TranslateError(f"{self.py}: type of {lean}")

    def block(self, stmts, ind, final, in_loop):
        """-> lines; `final` = the expression a normal fall-through ends with"""
        stmts = _strip(stmts)
        out = []
        sp = "  " * ind
        for k, s in enumerate(stmts):
            rest = stmts[k + 1:]
            pre = []
            if isinstance(s, ast.Return):
                if in_loop: raise TranslateError(f"{self.py}: return inside a loop")
                if s.value is not None and self.mesh_of(s.value) != "m" and not (isinstance(s.value, ast.Name) and self.env.get(s.value.id, ("", ""))[0] == "m"):
                    raise TranslateError(f"{self.py}: returns `{ast.unparse(s.value)}`")
                out.append(sp + "pure m"); return out
            if isinstance(s, ast.Continue):
                if not in_loop: raise TranslateError(f"{self.py}: continue outside a loop")
                out.append(sp + final); return out
            if isinstance(s, ast.Break):
                if not in_loop or not self.brk: raise TranslateError(f"{self.py}: break outside a loop")
                out.append(sp + self.brk[-1]); return out
            if isinstance(s, ast.Raise):
                e = s.exc
                nm = e.func.id if isinstance(e, ast.Call) and isinstance(e.func, ast.Name) else e.id if isinstance(e, ast.Name) else None
                kind = {"IndexError": ".index", "KeyError": ".key", "ValueError": ".value", "Exception": ".other"}.get(nm)
                if kind is None: raise TranslateError(f"{self.py}: raise `{ast.unparse(s)[:60]}`")
                out.append(sp + f"Except.error Err{kind}"); return out
            if isinstance(s, ast.With):
                out += [sp + l for l in self.with_stmt(s)]; continue
            if isinstance(s, ast.If):
                out += self.if_stmt(s, rest, ind, final, in_loop); return out
            if isinstance(s, ast.For):
                out += [sp + l for l in self.for_stmt(s)]; continue
            lines = self.simple(s, pre)
            out += [sp + l for l in pre + lines]
        out.append(sp + final)
        return out

    def terminal(self, stmts):
        stmts = _strip(stmts)
        return bool(stmts) and isinstance(stmts[-1], (ast.Return, ast.Continue, ast.Raise, ast.Break))

    def if_stmt(self, s, rest, ind, final, in_loop):
        sp = "  " * ind
        pre = []
        c = self.cond(s.test, pre)
        out = [sp + l for l in pre]
        body, orelse = s.body, s.orelse
        tb, te = self.terminal(body), self.terminal(orelse)
        saved = dict(self.env)
        if not rest or tb or te:
            # each branch runs to the end (a terminal branch stops; the other one continues with `rest`)
            out.append(sp + f"if {c} then do")
            out += self.block(body + ([] if tb else rest), ind + 1, final, in_loop)
            self.env = dict(saved)
            out.append(sp + "else do")
            out += self.block(orelse + ([] if te else rest), ind + 1, final, in_loop)
            self.env = dict(saved) if (tb or te) and rest else self.env
            return out
        # both branches fall through and something follows: the branches only update the state
        w = self.written(body + orelse, self.env)
        if not w: raise TranslateError(f"{self.py}: `if` without effect")
        pat = w[0] if len(w) == 1 else "(" + ", ".join(w) + ")"
        out.append(sp + f"let {pat} ← (if {c} then do")
        out += self.block(body, ind + 2, f"pure {pat}", in_loop)
        self.env = dict(saved)
        out.append(sp + "  else do")
        out += self.block(orelse, ind + 2, f"pure {pat}", in_loop)
        out[-1] += ")"
        self.env = dict(saved)
        out += self.block(rest, ind, final, in_loop)
        return out

    def iterable(self, s, pre):
        """-> (lean list term, element type, python-level rewriting of the body) for the loop `s`"""
        it, tg, body = s.iter, s.target, list(s.body)
        # for i in X.id_K : [A, B = X.K[i]]
        if isinstance(it, ast.Attribute) and it.attr in IDS and self.mesh_of(it.value) and isinstance(tg, ast.Name):
            mv, fld = self.mesh_of(it.value), FIELD[IDS[it.attr]]
            kname = IDS[it.attr]
            mutated = mv in self.written(body, self.env)
            if not mutated:
                try:
                    nb = [self._subst_read(b, it.value, kname, tg.id, "__elem") for b in body]
                    if any(isinstance(x, ast.Name) and x.id == "__elem" for b in nb for x in ast.walk(b)):
                        return f"{mv}.{fld[0]}", fld[1], ("__elem", None), nb       # index not needed: iterate the container
                except TranslateError:
                    nb = [self._subst_read_keep(b, it.value, kname, tg.id, "__elem") for b in body]
                    return f"number 0 {mv}.{fld[0]}", "inat", (tg.id, "__elem"), nb
            return f"List.range {mv}.{fld[0]}.length", "nat", (tg.id, None), body
        # for i, F in enumerate(X.K)
        if isinstance(it, ast.Call) and getattr(it.func, "id", "") == "enumerate" and len(it.args) == 1 and self.container(it.args[0]) \
                and isinstance(tg, ast.Tuple) and len(tg.elts) == 2 and all(isinstance(e, ast.Name) for e in tg.elts):
            c = self.container(it.args[0])
            if c[0] in self.written(body, self.env): raise TranslateError(f"{self.py}: loop writes the container it enumerates")
            if c[2] != "natlist": raise TranslateError(f"{self.py}: enumerate over {c[1]}")
            if not _name_used(body, tg.elts[0].id):
                return f"{c[0]}.{c[1]}", c[2], (tg.elts[1].id, None), body
            return f"number 0 {c[0]}.{c[1]}", "inat", (tg.elts[0].id, tg.elts[1].id), body
        # for (A, B) in X.edges / for F in X.faces
        c = self.container(it)
        if c:
            if c[0] in self.written(body, self.env): raise TranslateError(f"{self.py}: loop writes the container it iterates")
            if isinstance(tg, ast.Name): return f"{c[0]}.{c[1]}", c[2], (tg.id, None), body
            if isinstance(tg, ast.Tuple) and c[2] == "edge" and len(tg.elts) == 2:
                nb = [ast.Assign([tg], ast.Name("__elem", ast.Load()))] + body
                ast.fix_missing_locations(nb[0])
                return f"{c[0]}.{c[1]}", "edge", ("__elem", None), nb
        if isinstance(it, ast.Call) and getattr(it.func, "id", "") == "range" and isinstance(tg, ast.Name):
            args = [self.ex(a, pre) for a in it.args]
            if all(t == "nat" for _, t in args):
                if len(args) == 1: return f"List.range {self.par(args[0][0])}", "nat", (tg.id, None), body
                if len(args) == 2:
                    lo, hi = args[0][0], args[1][0]
                    return f"List.range' {self.par(lo)} ({hi} - {lo})", "nat", (tg.id, None), body
        if isinstance(tg, ast.Name):
            a, ta = self.ex(it, pre)
            if ta == "natlist": return a, "nat", (tg.id, None), body
        raise TranslateError(f"{self.py}: loop `for {ast.unparse(tg)} in {ast.unparse(it)[:60]}` not understood")

    @staticmethod
    def _subst_read_keep(node, mesh_node, field, var, newname):
        md = ast.dump(mesh_node)

        class R(ast.NodeTransformer):
            def visit_Subscript(self, s):
                if isinstance(s.value, ast.Attribute) and s.value.attr == field and ast.dump(s.value.value) == md \
                        and isinstance(s.slice, ast.Name) and s.slice.id == var:
                    return ast.copy_location(ast.Name(newname, ast.Load()), s)
                self.generic_visit(s); return s
        return R().visit(copy.deepcopy(node))

    def for_stmt(self, s):
        if s.orelse: raise TranslateError(f"{self.py}: for/else")
        # literal list: unrolled
        if isinstance(s.iter, (ast.List, ast.Tuple)) and isinstance(s.target, ast.Name) and s.iter.elts and \
                all(isinstance(e, (ast.List, ast.Tuple)) for e in s.iter.elts):
            out = []
            for e in s.iter.elts:
                class Sub(ast.NodeTransformer):
                    def visit_Name(self_, nn):
                        return copy.deepcopy(e) if nn.id == s.target.id and isinstance(nn.ctx, ast.Load) else nn
                body = [Sub().visit(copy.deepcopy(b)) for b in s.body]
                for b in _strip(body):
                    if isinstance(b, (ast.If, ast.For, ast.Return, ast.Continue)): raise TranslateError(f"{self.py}: control flow in an unrolled loop")
                    pre = []
                    lines = self.simple(b, pre)
                    out += pre + lines
            return out
        pre = []
        lst, ety, (n1, n2), body = self.iterable(s, pre)
        w = self.written(body, self.env)
        if not w: raise TranslateError(f"{self.py}: loop without effect")

        def has_break(stmts):
            for b in stmts:
                if isinstance(b, ast.Break): return True
                if isinstance(b, ast.If) and (has_break(b.body) or has_break(b.orelse)): return True
            return False
        brk = has_break(body)
        depth = len(self.brk)
        tys = [LTY[self.ty_of(v)] for v in w]
        names = list(w)
        if brk:
            names.append(f"brk{depth}"); tys.append("Bool")
        pat = names[0] if len(names) == 1 else "(" + ", ".join(names) + ")"
        sty = " × ".join(t if " × " not in t or len(tys) == 1 else f"({t})" for t in tys)
        saved = dict(self.env); saved_order = list(self.order)
        ev = "e"
        out_pat = pat if not brk else ((w[0] if len(w) == 1 else "(" + ", ".join(w) + ")") if False else "(" + ", ".join(list(w) + ["_"]) + ")")
        init = pat if not brk else "(" + ", ".join(list(w) + ["false"]) + ")"
        lines = [f"let {out_pat} ← foldE (fun (st : {sty}) ({ev} : {LTY[ety]}) => do"]
        lines.append(f"    let {pat} := st")
        ind = 2
        if brk:
            lines.append(f"    if brk{depth} = true then pure {pat} else do")
            ind = 3
            self.brk.append("pure (" + ", ".join(list(w) + ["true"]) + ")")
        sp = "  " * ind
        if ety == "inat":
            a = self.fresh(n1, "nat"); b = self.fresh(n2, "natlist")
            lines.append(f"{sp}let {a} := {ev}.1")
            lines.append(f"{sp}let {b} := {ev}.2")
        else:
            a = self.fresh(n1, ety)
            lines.append(f"{sp}let {a} := {ev}")
        fin = f"pure {pat}" if not brk else "pure (" + ", ".join(list(w) + ["false"]) + ")"
        lines += self.block(body, ind, fin, True)
        if brk: self.brk.pop()
        lines[-1] += f") {init} {self.par(lst)}"
        # locals bound inside the body do not survive
        self.env = {k: v for k, v in self.env.items() if k in saved}
        for k, v in saved.items(): self.env[k] = v
        self.order = saved_order + [x for x in self.order if x not in saved_order]
        return pre + lines

    def with_stmt(self, s):
        """`with SurfaceSubdivision(mesh) as ed: <operations>`: the operations run on the (shared) containers, `__exit__` prepares"""
        if len(s.items) != 1: raise TranslateError(f"{self.py}: with")
        it = s.items[0]
        ce = it.context_expr
        if not (isinstance(ce, ast.Call) and getattr(ce.func, "id", "") in ("SurfaceSubdivision", "VolumeSubdivision") and len(ce.args) == 1
                and not ce.keywords and self.mesh_of(ce.args[0]) == "m" and isinstance(it.optional_vars, ast.Name)):
            raise TranslateError(f"{self.py}: `with {ast.unparse(ce)[:60]}` not understood")
        self.editor = it.optional_vars.id
        out = []
        for b in _strip(s.body):
            if isinstance(b, ast.For): out += self.for_stmt(b)
            elif isinstance(b, (ast.If, ast.Return, ast.Raise, ast.With)): raise TranslateError(f"{self.py}: control flow inside a with block")
            else:
                pre = []
                ls = self.simple(b, pre); out += pre + ls
        self.editor = None
        self.effects.append("block:" + ce.func.id)
        out.append("let m := prepare m")
        return out

    def simple(self, s, pre):
        """a non-control statement -> lines (raising reads first, in `pre`)"""
        if isinstance(s, ast.Assign) and len(s.targets) == 1:
            tg, val = s.targets[0], s.value
            if isinstance(tg, ast.Name) and isinstance(val, ast.Name) and val.id == "__elem":
                self.env[tg.id] = self.env["__elem"]          # `F = X.faces[i]` inside `for i in X.id_faces`: the loop element itself
                return []
            if isinstance(tg, ast.Name):
                v, tv = self.ex(val, pre)
                if tv == "dict?":
                    tv = self.kinds.get(tg.id)
                    if tv is None: raise TranslateError(f"{self.py}: dict `{tg.id}` never written")
                    nm = self.bind(tg.id, tv); return [f"let {nm} : {LTY[tv]} := []"]
                if tv == "eset":
                    nm = self.bind(tg.id, tv); return [f"let {nm} : {LTY[tv]} := []"]
                if isinstance(val, ast.List) and not val.elts:
                    ty = self.list_kinds.get(tg.id, "nll")
                    nm = self.bind(tg.id, ty); return [f"let {nm} : {LTY[ty]} := []"]
                if tv == "bool": raise TranslateError(f"{self.py}: boolean local")
                nm = self.bind(tg.id, tv)
                return [f"let {nm} := {v}"]
            if self.mesh_of(tg) == "m":                        # `self.mesh = newMeshData`
                v, tv = self.ex(val, pre)
                if tv != "mesh": raise TranslateError(f"{self.py}: self.mesh = <{tv}>")
                return [f"let m := {v}"]
            if isinstance(tg, ast.Tuple) and all(isinstance(e, ast.Name) for e in tg.elts):
                names = [e.id for e in tg.elts]
                if isinstance(val, (ast.GeneratorExp, ast.ListComp)) and len(val.generators) == 1 and not val.generators[0].ifs \
                        and isinstance(val.generators[0].iter, (ast.Tuple, ast.List)) and isinstance(val.generators[0].target, ast.Name) \
                        and len(val.generators[0].iter.elts) == len(names):
                    g = val.generators[0]
                    lines = []
                    for nm_py, src in zip(names, g.iter.elts):
                        class Sub(ast.NodeTransformer):
                            def visit_Name(self_, nn):
                                return copy.deepcopy(src) if nn.id == g.target.id else nn
                        v, tv = self.ex(Sub().visit(copy.deepcopy(val.elt)), pre)
                        nm = self.bind(nm_py, tv)
                        pre.append(f"let {nm} := {v}")
                    return lines
                v, tv = self.ex(val, pre)
                if tv == "edge" and len(names) == 2:
                    a = self.bind(names[0], "nat"); b = self.bind(names[1], "nat")
                    return [f"let {a} := {v}.1", f"let {b} := {v}.2"]
                if tv == "natlist" and len(names) in (3, 4):
                    t = self.tmp()
                    ls = [f"let {t} ← unpack{len(names)} {self.par(v)}"]
                    for i, nm_py in enumerate(names):
                        nm = self.bind(nm_py, "nat")
                        ls.append(f"let {nm} := {t}" + ".2" * i + ("" if i == len(names) - 1 else ".1"))
                    return ls
                raise TranslateError(f"{self.py}: unpacking `{ast.unparse(s)[:80]}`")
            if isinstance(tg, ast.Subscript):
                c = self.container(tg.value)
                i, ti = self.ex(tg.slice, pre)
                v, tv = self.ex(val, pre)
                if c:
                    if ti != "nat" or tv != c[2]: raise TranslateError(f"{self.py}: store `{ast.unparse(s)[:80]}` ({tv} into {c[1]})")
                    t = self.tmp()
                    return [f"let {t} ← setAt {c[0]}.{c[1]} {self.par(i)} {self.par(v)}", f"let {c[0]} := {{ {c[0]} with {c[1]} := {t} }}"]
                if isinstance(tg.value, ast.Name) and tg.value.id in self.env:
                    b, tb = self.env[tg.value.id]
                    if tb in ("dictE", "dictN") and tv == "nat" and ti == ("edge" if tb == "dictE" else "nat"):
                        return [f"let {b} := dset {b} {self.par(i)} {self.par(v)}"]
                    if tb == "natlist" and ti == "nat" and tv == "nat":
                        return [f"let {b} ← setAt {b} {self.par(i)} {self.par(v)}"]
                raise TranslateError(f"{self.py}: store `{ast.unparse(s)[:80]}`")
        if isinstance(s, ast.AugAssign) and isinstance(s.op, ast.Add) and isinstance(s.target, ast.Subscript) \
                and isinstance(s.target.value, ast.Name) and self.env.get(s.target.value.id, ("", ""))[1] == "natlist":
            b = self.env[s.target.value.id][0]
            i, ti = self.ex(s.target.slice, pre)
            v, tv = self.ex(s.value, pre)
            if ti == tv == "nat":
                t = self.tmp()
                return [f"let {t} ← idx {b} {self.par(i)}", f"let {b} ← setAt {b} {self.par(i)} ({t} + {v})"]
        if isinstance(s, ast.AugAssign) and isinstance(s.op, ast.Add):
            c = self.container(s.target)
            if c:
                cv = self.container(s.value)
                if cv and cv[2] == c[2]:
                    return [f"let {c[0]} := {{ {c[0]} with {c[1]} := {c[0]}.{c[1]} ++ {cv[0]}.{cv[1]} }}"]
                v, tv = self.ex(s.value, pre)
                if (c[2], tv) in (("natlist", "nll"), ("edge", "eset")):
                    return [f"let {c[0]} := {{ {c[0]} with {c[1]} := {c[0]}.{c[1]} ++ {v} }}"]
            raise TranslateError(f"{self.py}: `{ast.unparse(s)[:80]}`")
        if isinstance(s, ast.Expr) and isinstance(s.value, ast.Call) and isinstance(s.value.func, ast.Attribute):
            f, args = s.value.func, s.value.args
            if f.attr == "append" and len(args) == 1:
                c = self.container(f.value)
                v, tv = self.ex(args[0], pre)
                if c:
                    if tv != c[2]: raise TranslateError(f"{self.py}: append of a {tv} to {c[1]}")
                    return [f"let {c[0]} := {{ {c[0]} with {c[1]} := {c[0]}.{c[1]} ++ [{v}] }}"]
                if isinstance(f.value, ast.Name) and f.value.id in self.env and self.env[f.value.id][1] == "nll" and tv == "natlist":
                    b = self.env[f.value.id][0]
                    return [f"let {b} := {b} ++ [{v}]"]
                if isinstance(f.value, ast.Name) and f.value.id in self.env and self.env[f.value.id][1] == "natlist" and tv == "nat":
                    b = self.env[f.value.id][0]
                    return [f"let {b} := {b} ++ [{v}]"]
            if f.attr == "add" and len(args) == 1 and isinstance(f.value, ast.Name) and f.value.id in self.env and self.env[f.value.id][1] == "eset":
                v, tv = self.ex(args[0], pre)
                if tv == "edge":
                    b = self.env[f.value.id][0]
                    return [f"let {b} := sadd {b} {self.par(v)}"]
            if f.attr == "clear" and not args and isinstance(f.value, ast.Attribute) and f.value.attr == "connectivity" and self.mesh_of(f.value.value) == "m":
                self.effects.append("connectivity.clear")
                return []
            if isinstance(f.value, ast.Name) and (f.value.id == "self" or (self.editor and f.value.id == self.editor)) and f.attr in LEAN_NAME:
                if f.attr not in self.u.done: raise TranslateError(f"{self.py}: call of `{f.attr}` (not translated before)")
                want = self.u.done[f.attr]
                if len(args) != len(want) or s.value.keywords: raise TranslateError(f"{self.py}: call `{ast.unparse(s)}`")
                vs = [self.ex(a, pre) for a in args]
                if [t for _, t in vs] != want: raise TranslateError(f"{self.py}: argument types of `{ast.unparse(s)}`")
                return [f"let m ← {LEAN_NAME[f.attr]} m" + "".join(" " + self.par(v) for v, _ in vs)]
        raise TranslateError(f"{self.py}: statement `{ast.unparse(s)[:80]}` not understood")

    def compile(self):
        body = self.block(self.fn.body, 1, "pure m", False)
        sig = "".join(f" ({p} : {LTY[t]})" for p, t in self.params)
        head = f"/-- `{self.qual}` -/\ndef {self.lean} (m : Raw){sig} : Except Err Raw := do"
        return head + "\n" + "\n".join(body) + "\n"


class Unit:
    def __init__(self, tree):
        self.tree = tree
        self.done = {}       # python method name -> parameter types


# ---- the editing-block protocol: __init__ / __enter__ / __exit__ as step lists ------------------------------------------------------
def _steps(fn, cls_mesh):
    out = []
    for s in _strip(fn.body):
        u = ast.unparse(s).replace(" ", "")
        if u.startswith("super().__init__("): continue
        if u == "self.mesh=mesh": out.append(".bindWork")
        elif u == "self._input=mesh": out.append(".keepCaller")
        elif u == "self.conn=None": continue
        elif u == "self.mesh=RawMeshData(self.mesh)": out.append(".wrapRaw")
        elif u.startswith("self.mesh.") and u.endswith(".clear()") and u.count(".") == 3: out.append(f'.clear "{u.split(".")[2]}"')
        elif u == "self.conn=self.mesh.connectivity": out.append(".cellAdjacency")
        elif u == "self.conn._compute_cell_adj()": continue
        elif u == "self.mesh.prepare()": out.append(".prepare")
        elif u in ("self._input.__init__(self.mesh)", f"{cls_mesh}.__init__(self._input,self.mesh)", "type(self._input).__init__(self._input,self.mesh)"):
            out.append(".reinitCaller")
        elif u == "self.mesh=self._input": out.append(".rebindCaller")
        elif u == "returnself": continue
        else: out.append(f'.other "{u[:60]}"')
    return out


def translate_bodies():
    """-> (records, lean text).  One record per function; a function that cannot be read gets a stub that makes its bridge fail."""
    recs, parts, translated = [], [], []
    try:
        tree, _ = T.load(FILE)
    except Exception as e:  # noqa  (unreadable / unparsable source: every site fails, and the file on disk is replaced by stubs -
        tree = ast.parse("")  # never leave the Generated file of an EARLIER tree in place)
        recs.append({"site": "subdivision.py: source file readable", "ok": False, "detail": f"{type(e).__name__}: {e}"[:200]})
    unit = Unit(tree)
    for qual, meshparam, ptypes in ORDER:
        py = qual.split(".")[-1]

        def one(qual=qual, meshparam=meshparam, ptypes=ptypes, py=py):
            f = Fn(unit, qual, meshparam, ptypes)
            txt = f.compile()
            unit.done[py] = ptypes
            parts.append(txt)
            if f.effects: parts.append(f"def {f.lean}Effects : List String := [" + ", ".join(f'"{e}"' for e in f.effects) + "]\n")
            translated.append(qual)
            return f"{len(txt.splitlines())} lines"
        r = T.site(f"subdivision.py: body of {qual}", one)
        if not r["ok"]:
            sig = "".join(f" (p{i + 1} : {LTY[t]})" for i, t in enumerate(ptypes))
            parts.append(f"/-- `{qual}`: NOT TRANSLATED ({r['detail'][:100]}) -/\ndef {LEAN_NAME[py]} (m : Raw){sig} : Except Err Raw := .error .value\n")
            unit.done[py] = ptypes
        recs.append(r)

    def protocol():
        lines = []
        for cls, mesh_cls, tag in (("SurfaceSubdivision", "SurfaceMesh", "surf"), ("VolumeSubdivision", "VolumeMesh", "vol")):
            for meth, nm in (("__init__", "Init"), ("__enter__", "Enter"), ("__exit__", "Exit")):
                st = _steps(T.find_def(tree, f"{cls}.{meth}"), mesh_cls)
                lines.append(f"/-- `{cls}.{meth}` -/\ndef {tag}{nm} : List Step := [" + ", ".join(st) + "]")
        parts.append("\n".join(lines) + "\n")
        translated.extend(f"{c}.{m_}" for c in ("SurfaceSubdivision", "VolumeSubdivision") for m_ in ("__init__", "__enter__", "__exit__"))
        return "step lists of __init__ / __enter__ / __exit__ of both editors"
    r = T.site("subdivision.py: editing-block protocol (__init__/__enter__/__exit__ step lists)", protocol)
    if not r["ok"]:
        parts.append("\n".join(f"def {t}{n} : List Step := []" for t in ("surf", "vol") for n in ("Init", "Enter", "Exit")) + "\n")
    recs.append(r)
    def id_ranges():
        t2, _ = T.load("mouette/mesh/mesh_data.py")
        got = []
        for prop, cont in IDS.items():
            fn = T.find_def(t2, f"RawMeshData.{prop}")
            st = _strip(fn.body)
            if len(st) != 1 or not isinstance(st[0], ast.Return) or ast.unparse(st[0].value).replace(" ", "") != f"range(len(self.{cont}))":
                raise TranslateError(f"RawMeshData.{prop} is not `return range(len(self.{cont}))`")
            if not any(ast.unparse(d) == "property" for d in fn.decorator_list): raise TranslateError(f"RawMeshData.{prop} is not a property")
            got.append((prop, cont))
        parts.append("/-- `RawMeshData.id_*`: property -> the container whose `range(len(..))` it returns -/\ndef idRanges : List (String × String) := ["
                     + ", ".join(f'("{a}", "{b}")' for a, b in got) + "]\n")
        translated.extend(f"RawMeshData.{a}" for a, _ in got)
        return f"{len(got)} properties"
    r = T.site("mesh_data.py: id_vertices / id_edges / id_faces / id_cells are range(len(container))", id_ranges)
    if not r["ok"]: parts.append("def idRanges : List (String × String) := []\n")
    recs.append(r)
    body = ("import Mouette.Model.SubdivSource\nnamespace Mouette.Generated.C13Src\nopen Mouette.Subdiv Mouette.SubdivSrc\n\n"
            + "\n".join(parts) + "\nend Mouette.Generated.C13Src\n")
    T.write_generated("C13Src", body)
    return recs, translated
