"""Lean side: lake build, axiom audit, model driver."""
import fcntl, os, re, subprocess, sys, time

ROOT = os.path.dirname(os.path.dirname(os.path.abspath(__file__)))
LEAN = os.path.join(ROOT, "lean")
def exe_path(pid):
    return os.path.join(LEAN, ".lake", "build", "bin", f"model_{pid.lower()}")


def exe_target(pid):
    return f"model_{pid.lower()}"

ALLOWED_AXIOMS = {"propext", "Classical.choice", "Quot.sound"}
FORBIDDEN = re.compile(r"\bsorry\b|\badmit\b|^\s*axiom\s|native_decide|bv_decide|implemented_by|\bunsafe\s|maxHeartbeats\s+0")


class _Lock:
    def __enter__(self):
        os.makedirs(os.path.join(LEAN, ".lake"), exist_ok=True)
        self.f = open(os.path.join(LEAN, ".lake", "verif.lock"), "w")
        fcntl.flock(self.f, fcntl.LOCK_EX)
        return self

    def __exit__(self, *a):
        fcntl.flock(self.f, fcntl.LOCK_UN)
        self.f.close()


def lake_build(targets, timeout=3000):
    """Build the given targets. Returns (ok, log)."""
    sys.path.insert(0, os.path.join(ROOT, "tools"))
    import gen_roots
    with _Lock():
        gen_roots.main()
        p = subprocess.run(["lake", "build"] + list(targets), cwd=LEAN, stdout=subprocess.PIPE,
                           stderr=subprocess.STDOUT, text=True, timeout=timeout)
    return p.returncode == 0, p.stdout


def strip_comments(src):
    # remove /- ... -/ (nested) and -- line comments
    out, i, depth = [], 0, 0
    while i < len(src):
        if src.startswith("/-", i):
            depth += 1; i += 2; continue
        if depth and src.startswith("-/", i):
            depth -= 1; i += 2; continue
        if depth:
            if src[i] == "\n": out.append("\n")
            i += 1; continue
        if src.startswith("--", i):
            while i < len(src) and src[i] != "\n": i += 1
            continue
        out.append(src[i]); i += 1
    return "".join(out)


def grep_forbidden(dirs=("Mouette", "Driver")):
    hits = []
    for d in dirs:
        for base, _, files in os.walk(os.path.join(LEAN, d)):
            for fn in files:
                if not fn.endswith(".lean"): continue
                path = os.path.join(base, fn)
                src = strip_comments(open(path).read())
                for ln, line in enumerate(src.split("\n"), 1):
                    if FORBIDDEN.search(line):
                        hits.append(f"{os.path.relpath(path, LEAN)}:{ln}: {line.strip()[:120]}")
    return hits


AUDIT_TMPL = """import Lean
{imports}
open Lean Elab Command
run_cmd do
  let env ← getEnv
  for m in [{mods}] do
    let some idx := env.getModuleIdx? m | throwError "no module {{m}}"
    for (n, ci) in env.constants.map₁.toList do
      if env.getModuleIdxFor? n == some idx then
        if let .thmInfo _ := ci then
          if !n.isInternalDetail then
            let axs ← collectAxioms n
            IO.println s!"THEOREM {{n}} AXIOMS {{axs.toList}}"
"""


def audit(modules, timeout=1800):
    """Enumerate theorems of the compiled Props modules from the environment and collect the axioms
    each depends on. Returns (ok, {theorem: [axioms]}, log)."""
    os.makedirs(os.path.join(LEAN, "Mouette", "Audit"), exist_ok=True)
    tag = "_".join(m.split(".")[-1] for m in modules)
    path = os.path.join(LEAN, "Mouette", "Audit", f"Audit_{tag}.lean")
    src = AUDIT_TMPL.format(imports="\n".join(f"import {m}" for m in modules),
                            mods=", ".join("`" + m for m in modules))
    if not os.path.exists(path) or open(path).read() != src:
        open(path, "w").write(src)
    with _Lock():
        p = subprocess.run(["lake", "env", "lean", path], cwd=LEAN, stdout=subprocess.PIPE,
                           stderr=subprocess.STDOUT, text=True, timeout=timeout)
    thms = {}
    for line in p.stdout.split("\n"):
        m = re.match(r"THEOREM (\S+) AXIOMS \[(.*)\]", line)
        if m:
            thms[m.group(1)] = [a.strip() for a in m.group(2).split(",") if a.strip()]
    return p.returncode == 0, thms, p.stdout


def run_driver(pid, lines, timeout=1800):
    """Send request lines (tokens after the property prefix) to the property's compiled model driver."""
    if not lines:
        return []
    data = "\n".join(lines) + "\n"
    if os.path.exists(exe_path(pid)):
        cmd = [exe_path(pid)]
    else:
        cmd = ["lake", "env", "lean", "--run", f"Driver/Main{pid}.lean"]
    p = subprocess.run(cmd, cwd=LEAN, input=data, stdout=subprocess.PIPE, stderr=subprocess.PIPE,
                       text=True, timeout=timeout)
    out = p.stdout.split("\n")
    if out and out[-1] == "": out.pop()
    if p.returncode != 0 or len(out) != len(lines):
        raise RuntimeError(f"driver failed rc={p.returncode} got {len(out)} replies for {len(lines)} requests: {p.stderr[:500]}")
    return out


def leanchecker(modules, timeout=3600):
    """Independent re-check of the compiled theorems (thorough tier). Returns (ok, log)."""
    with _Lock():
        p = subprocess.run(["lake", "env", "leanchecker"] + list(modules), cwd=LEAN, stdout=subprocess.PIPE,
                           stderr=subprocess.STDOUT, text=True, timeout=timeout)
    return p.returncode == 0, p.stdout[-2000:]
