"""Generic check runner shared by all properties (see DESIGN.md 1.4).

A property module (vlib/props/cXX.py) exposes:
  PID, TITLE, LEAN_MODULES (Props modules holding the theorems), TRUSTED (list of str),
  RULE (str: how cases are generated / what counts as non-trivial),
  translate()                     -> list of {site, ok, detail}          (optional)
  cases(rng, tier)                -> iterable of JSON-serialisable case dicts
  model_request(case)             -> str | None   protocol line (without property prefix)
  impl_observe(case)              -> str          canonical observation of the implementation
  compare(case, model, impl)      -> None | str   (optional, default: string equality)
  oracle(case)                    -> list of {key, what, detail}  property stated directly on the code
  nontrivial(case, obs)           -> bool
  describe(case)                  -> JSON for evidence samples (optional)
  shrink(case, still_fails)       -> smaller case (optional)
  search_on_break(rng, what)      -> iterable of extra cases for the failing-input search (optional)
"""
import hashlib, importlib, json, os, random, sys, time, traceback

from . import leanio

ROOT = leanio.ROOT
EVID = os.path.join(ROOT, "evidence")
REPLAYS = os.path.join(ROOT, "replays")
KNOWN = os.path.join(ROOT, "known_findings.json")


def load_known(pid):
    """known_findings.json plus known_findings.d/*.json (read-only for the checks)."""
    entries = []
    paths = [KNOWN] if os.path.exists(KNOWN) else []
    kd = os.path.join(ROOT, "known_findings.d")
    if os.path.isdir(kd):
        paths += [os.path.join(kd, f) for f in sorted(os.listdir(kd)) if f.endswith(".json")]
    for p in paths:
        data = json.load(open(p))
        entries += data.get("findings", []) if isinstance(data, dict) else data
    opens = [e for e in entries if e["property"] == pid and e["status"] == "open"]
    fixed = [e for e in entries if e["property"] == pid and e["status"] == "fixed"]
    return opens, fixed


def load_module(pid):
    return importlib.import_module(f"vlib.props.{pid.lower()}")


def _jdump(o):
    return json.dumps(o, sort_keys=True, default=str)


def case_id(case):
    return hashlib.sha1(_jdump(case).encode()).hexdigest()[:12]


def safe(fn, *a):
    """Run a harness callback; harness crashes are reported as such (never silently ignored)."""
    try:
        return fn(*a), None
    except Exception as e:  # noqa
        return None, f"{type(e).__name__}: {e}\n{traceback.format_exc()[-1500:]}"


def _raised_inside_implementation(exc):
    """True when the innermost frame of the exception is a file of the implementation under test: the harness called
    the library in a way that works on the unchanged tree (every check passes there) and the library raised."""
    repo = os.path.realpath(os.environ.get("MOUETTE_REPO", "/repo"))
    tb = exc.__traceback__
    last = None
    while tb is not None:
        last = tb.tb_frame.f_code.co_filename
        tb = tb.tb_next
    return bool(last) and os.path.realpath(last).startswith(os.path.join(repo, "mouette"))


class _CaseTimeout(BaseException):
    """raised by the per-case alarm; a BaseException so that `except Exception` inside the implementation cannot swallow it"""


_TIMEOUTS_SEEN = [0]


def _case_timeout():
    """Wall-clock limit per case: VERIF_CASE_TIMEOUT seconds (default 300) until a first case has run into it; afterwards 10 s.
    The shortening can only happen after a genuine timeout (which is already a finding), so it cannot raise an alarm on a tree that
    returns; it keeps a run against a change that makes MANY cases hang from taking hours (seen: 170 hanging cases x 300 s)."""
    try:
        base = float(os.environ.get("VERIF_CASE_TIMEOUT", "300"))
    except ValueError:
        base = 300.0
    if _TIMEOUTS_SEEN[0] and base > 10:
        return 10.0
    return base


def _case_cpu_timeout():
    """User-CPU limit per case (machine load cannot trigger it): VERIF_CASE_CPU_TIMEOUT seconds, default 120; 10 s after a first timeout."""
    try:
        base = float(os.environ.get("VERIF_CASE_CPU_TIMEOUT", "120"))
    except ValueError:
        base = 120.0
    if _TIMEOUTS_SEEN[0] and base > 10:
        return 10.0
    return base


class _case_deadline:
    """Per-case limits for callbacks that drive the implementation (main thread only; a no-op elsewhere): wall clock (SIGALRM) and
    user CPU time (SIGVTALRM)."""
    def __enter__(self):
        import signal, threading
        self.on = threading.current_thread() is threading.main_thread() and hasattr(signal, "setitimer") and _case_timeout() > 0
        if self.on:
            def _h(signum, frame):
                _TIMEOUTS_SEEN[0] += 1
                raise _CaseTimeout()
            self.old = signal.signal(signal.SIGALRM, _h)
            self.oldv = signal.signal(signal.SIGVTALRM, _h)
            signal.setitimer(signal.ITIMER_REAL, _case_timeout())
            if _case_cpu_timeout() > 0:
                signal.setitimer(signal.ITIMER_VIRTUAL, _case_cpu_timeout())
        return self

    def __exit__(self, *a):
        if self.on:
            import signal
            signal.setitimer(signal.ITIMER_REAL, 0)
            signal.setitimer(signal.ITIMER_VIRTUAL, 0)
            signal.signal(signal.SIGALRM, self.old)
            signal.signal(signal.SIGVTALRM, self.oldv)
        return False


def safe_probe(pid, what, fn, case):
    """Like `safe`, for callbacks that drive the implementation: an exception raised *inside the implementation* while the
    harness inspects it is returned as a finding (third component), not as a harness error."""
    try:
        with _case_deadline():
            return fn(case), None, None
    except _CaseTimeout:
        # the implementation did not return: no clause of any statement can hold on this input ("for every input ... returns/gives ...").
        # The limit is generous (VERIF_CASE_TIMEOUT seconds, default 300; cases take milliseconds to a few seconds on the unchanged tree)
        return None, None, {"key": f"{pid}/{what}/implementation-does-not-return",
                            "what": "the implementation did not return within the per-case limit (wall clock VERIF_CASE_TIMEOUT / user CPU VERIF_CASE_CPU_TIMEOUT) on this case; it returns at once on the unchanged tree",
                            "detail": ""}
    except Exception as e:  # noqa
        txt = f"{type(e).__name__}: {e}\n{traceback.format_exc()[-1500:]}"
        if _raised_inside_implementation(e):
            return None, None, {"key": f"{pid}/{what}/implementation-raises/{type(e).__name__}",
                                "what": f"the implementation raised {type(e).__name__} where the {what} of this case succeeds on the unchanged tree",
                                "detail": txt[-700:]}
        return None, txt, None


class Result:
    def __init__(self):
        self.findings = []      # (case, finding)
        self.mismatches = []    # (case, model, impl, why)
        self.harness_errors = []
        self.evaluations = 0
        self.nontrivial_ids = set()
        self.samples = []
        self.dist = {}

    def bump(self, k, n=1):
        self.dist[k] = self.dist.get(k, 0) + n


def run_cases(mod, cases, res, want_samples=4):
    """Run oracle + implementation observation on every case, then the model on all requests in
    one driver batch, then compare."""
    reqs, idx = [], []
    staged = []
    for case in cases:
        res.evaluations += 1
        obs, err, fnd = safe_probe(mod.PID, "observation", mod.impl_observe, case)
        if fnd:
            res.findings.append((case, fnd)); continue
        if err:
            res.harness_errors.append((case, "impl_observe: " + err)); continue
        fs, err, fnd = safe_probe(mod.PID, "oracle", mod.oracle, case)
        if fnd:
            res.findings.append((case, fnd)); continue
        if err:
            res.harness_errors.append((case, "oracle: " + err)); continue
        for f in fs:
            res.findings.append((case, f))
        req, err = safe(mod.model_request, case)
        if err:
            res.harness_errors.append((case, "model_request: " + err)); continue
        nt, _ = safe(mod.nontrivial, case, obs)
        if nt:
            res.nontrivial_ids.add(case_id(case))
        if hasattr(mod, "classify"):
            for k in (safe(mod.classify, case, obs)[0] or []):
                res.bump(k)
        staged.append((case, obs, fs, req))
        if req is not None:
            idx.append(len(staged) - 1); reqs.append(req)
    replies = leanio.run_driver(mod.PID, reqs) if reqs else []
    cmp_fn = getattr(mod, "compare", None)
    for j, rep in zip(idx, replies):
        case, obs, fs, req = staged[j]
        if cmp_fn:
            why, err = safe(cmp_fn, case, rep, obs)
            if err:
                res.harness_errors.append((case, "compare: " + err)); continue
        else:
            why = None if rep == obs else "model reply differs from implementation observation"
        if why:
            res.mismatches.append((case, rep, obs, why, fs))
        if len(res.samples) < want_samples and (case_id(case) in res.nontrivial_ids):
            d = getattr(mod, "describe", lambda c: c)(case)
            res.samples.append({"case": d, "model_reply": rep[:400], "impl_observation": str(obs)[:400]})
    if not res.samples and staged:
        case, obs, fs, req = staged[0]
        res.samples.append({"case": getattr(mod, "describe", lambda c: c)(case), "impl_observation": str(obs)[:400]})


def write_replay(pid, seed, n, payload):
    os.makedirs(REPLAYS, exist_ok=True)
    path = os.path.join(REPLAYS, f"{pid}-{seed}-{n}.json")
    with open(path, "w") as f:
        json.dump(payload, f, indent=1, sort_keys=True, default=str)
    return os.path.relpath(path, ROOT)


def shrink_case(mod, case, key):
    if not hasattr(mod, "shrink"):
        return case

    def still(c):
        fs, err = safe(mod.oracle, c)
        return (not err) and any(f["key"] == key for f in fs)
    out, err = safe(mod.shrink, case, still)
    return out if (out is not None and not err) else case


def main_check(pid, tier, seed, replay=None):
    t0 = time.time()
    mod = load_module(pid)
    rng = random.Random(f"{pid}-{seed}-{tier}")
    opens, fixed = load_known(pid)
    open_keys = {e["key"] for e in opens}
    broken = []          # broken obligations: {kind, name, detail}
    lines = []

    # ---- replay mode -------------------------------------------------------------------------
    if replay:
        payload = json.load(open(replay))
        cases = payload.get("cases") or ([payload["case"]] if payload.get("case") is not None else [])
        if hasattr(mod, "translate"):
            safe(mod.translate)          # the model driver is rebuilt from the current source's fragments
        ok_b, log = leanio.lake_build([leanio.exe_target(pid)])
        res = Result()
        run_cases(mod, cases, res)
        bad = [f for _, f in res.findings] + [m[3] for m in res.mismatches] + [e for _, e in res.harness_errors]
        for b in bad:
            print("REPLAY-FAILS:", b if isinstance(b, str) else _jdump(b)[:600])
        if not cases:
            print("replay names a broken obligation without failing input:", payload.get("theorem_or_correspondence"))
            return 1
        print("replay:", "still fails" if bad else "passes")
        return 1 if bad else 0

    # stale replay files of earlier runs of this property/seed are removed (numbering restarts at 0)
    if os.path.isdir(REPLAYS):
        for fn in os.listdir(REPLAYS):
            if fn.startswith(f"{pid}-{seed}-"):
                os.remove(os.path.join(REPLAYS, fn))

    # ---- 1. translated fragments -------------------------------------------------------------
    sites = []
    if hasattr(mod, "translate"):
        sites, err = safe(mod.translate)
        if err:
            broken.append({"kind": "translator", "name": "translate()", "detail": err}); sites = []
        for s in sites:
            if not s["ok"]:
                broken.append({"kind": "translator", "name": s["site"], "detail": s.get("detail", "")})

    # ---- 2. build theorems + driver ----------------------------------------------------------
    targets = list(mod.LEAN_MODULES) + [leanio.exe_target(pid)]
    ok_build, log = leanio.lake_build(targets)
    if not ok_build:
        tail = "\n".join([l for l in log.split("\n") if "error" in l.lower()][:20]) or log[-1500:]
        broken.append({"kind": "lake-build", "name": " ".join(targets), "detail": tail})

    # ---- 3. audit ------------------------------------------------------------------------------
    thms = {}
    if ok_build:
        ok_a, thms, alog = leanio.audit(mod.LEAN_MODULES)
        if not ok_a:
            broken.append({"kind": "audit", "name": "audit", "detail": alog[-1500:]})
        for t, axs in thms.items():
            bad = [a for a in axs if a not in leanio.ALLOWED_AXIOMS]
            if bad:
                broken.append({"kind": "axioms", "name": t, "detail": f"depends on {bad}"})
        for h in leanio.grep_forbidden():
            broken.append({"kind": "forbidden-token", "name": h, "detail": h})
        want = getattr(mod, "REQUIRED_THEOREMS", [])
        for w in want:
            if not any(t == w or t.endswith("." + w) for t in thms):
                broken.append({"kind": "missing-theorem", "name": w, "detail": "required theorem not found in compiled environment"})
    rechecked = None
    if ok_build and tier == "thorough":
        ok_lc, lclog = leanio.leanchecker(mod.LEAN_MODULES)
        rechecked = ok_lc
        if not ok_lc:
            broken.append({"kind": "leanchecker", "name": " ".join(mod.LEAN_MODULES), "detail": lclog})
    obligations = len(thms) if thms else len(getattr(mod, "REQUIRED_THEOREMS", [])) or 1
    discharged = sum(1 for t, axs in thms.items() if all(a in leanio.ALLOWED_AXIOMS for a in axs))

    # ---- 4. correspondence + oracle ------------------------------------------------------------
    res = Result()
    driver_ok = os.path.exists(leanio.exe_path(pid))
    corpus = []
    cdir = os.path.join(ROOT, "corpus", pid)
    if os.path.isdir(cdir):
        for fn in sorted(os.listdir(cdir)):
            if fn.endswith(".json"):
                c = json.load(open(os.path.join(cdir, fn)))
                corpus.extend(c.get("cases") or [c["case"]])
    for e in fixed:
        if e.get("witness") is not None:
            corpus.append(e["witness"])
    gen, err = safe(lambda: list(mod.cases(rng, tier)))
    if err:
        print("HARNESS-ERROR generating cases:", err); return 2
    if not driver_ok:
        # model unavailable: run oracle only (failing-input search), correspondence counted broken
        saved = mod.model_request
        mod.model_request = lambda c: None
    try:
        run_cases(mod, corpus + gen, res)
    except RuntimeError as e:
        broken.append({"kind": "driver", "name": leanio.exe_target(pid), "detail": str(e)})
    # open known findings: re-run their witnesses
    known_seen = []
    for e in opens:
        if e.get("witness") is None:
            continue
        fs, err = safe(mod.oracle, e["witness"])
        if err:
            res.harness_errors.append((e["witness"], "known witness: " + err)); continue
        if any(f["key"] == e["key"] for f in fs):
            known_seen.append(e)
        for f in fs:
            res.findings.append((e["witness"], f))

    # ---- 5. if something broke: extra failing-input search -------------------------------------
    unexplained_now = [m for m in res.mismatches if not (m[4] and all(f["key"] in open_keys for f in m[4]))]
    if (broken or unexplained_now) and hasattr(mod, "search_on_break"):
        extra, err = safe(lambda: list(mod.search_on_break(rng, broken, res.mismatches)))
        if extra:
            r2 = Result()
            saved2 = mod.model_request
            mod.model_request = lambda c: None
            try:
                run_cases(mod, extra, r2)
            finally:
                mod.model_request = saved2
            res.findings.extend(r2.findings)
            res.evaluations += r2.evaluations

    # ---- 6. verdict ---------------------------------------------------------------------------
    if res.harness_errors:
        for c, e in res.harness_errors[:5]:
            print("HARNESS-ERROR", e[:800]); print("   case:", _jdump(c)[:300])
        print(f"harness errors: {len(res.harness_errors)} (exit 2: the check itself is broken, not the code)")
        _write_evidence(mod, tier, seed, t0, res, thms, obligations, discharged, sites, known_seen, 0, broken)
        return 2
    violations = 0
    nrep = 0
    by_key = {}
    for case, f in res.findings:
        by_key.setdefault(f["key"], []).append((case, f))
    unlisted = {k: v for k, v in by_key.items() if k not in open_keys}
    for e in known_seen:
        print(f"KNOWN-FINDING: property={pid} {e['key']}: {e['what']}")
    for k, lst in sorted(unlisted.items()):
        case, f = min(lst, key=lambda cf: len(_jdump(cf[0])))
        small = shrink_case(mod, case, k)
        path = write_replay(pid, seed, nrep, {
            "property": pid, "finding_key": k, "kind": "failing-input", "case": small,
            "what": f["what"], "detail": f.get("detail"), "shrunk_from": case_id(case), "seed": seed,
            "occurrences_this_run": len(lst)})
        nrep += 1; violations += 1
        print(f"VIOLATION property={pid} replay={path}")
        print(f"   {k}: {f['what']}")
    # correspondence mismatches not explained by a finding
    unexplained = [m for m in res.mismatches if not m[4]]
    explained_known = [m for m in res.mismatches if m[4] and all(f["key"] in open_keys for f in m[4])]
    if unexplained:
        case, rep, obs, why, _ = min(unexplained, key=lambda m: len(_jdump(m[0])))
        suffix = "" if unlisted else " no-failing-input-found"
        if not unlisted:
            path = write_replay(pid, seed, nrep, {
                "property": pid, "finding_key": None, "kind": "broken-correspondence",
                "theorem_or_correspondence": f"correspondence {pid}: model vs implementation",
                "case": case, "model_reply": rep, "impl_observation": obs, "why": why,
                "mismatches_this_run": len(unexplained), "seed": seed})
            nrep += 1; violations += 1
            print(f"VIOLATION property={pid} replay={path}{suffix}")
            print(f"   correspondence broken on {len(unexplained)} case(s): {why[:300]}")
        else:
            print(f"   (also: correspondence differs on {len(unexplained)} case(s); first: {why[:200]})")
    if broken:
        for b in broken[:10]:
            print(f"BROKEN-OBLIGATION {b['kind']} {b['name']}: {str(b['detail'])[:600]}")
        if not unlisted and not unexplained:
            path = write_replay(pid, seed, nrep, {
                "property": pid, "finding_key": None, "kind": "broken-obligation",
                "theorem_or_correspondence": [b["name"] for b in broken], "broken": broken, "cases": [],
                "searched_cases": res.evaluations, "seed": seed})
            nrep += 1; violations += 1
            print(f"VIOLATION property={pid} replay={path} no-failing-input-found")
    _write_evidence(mod, tier, seed, t0, res, thms, obligations, discharged, sites, known_seen, violations, broken, rechecked)
    print(f"{pid} tier={tier} seed={seed}: theorems {discharged}/{obligations}, cases {res.evaluations} "
          f"(nontrivial {len(res.nontrivial_ids)}), mismatches {len(res.mismatches)}, "
          f"findings {len(by_key)} (known {len(known_seen)}), violations {violations}, {time.time()-t0:.1f}s")
    return 1 if violations else 0


def _write_evidence(mod, tier, seed, t0, res, thms, obligations, discharged, sites, known_seen, violations, broken, rechecked=None):
    os.makedirs(EVID, exist_ok=True)
    ev = {
        "property_id": mod.PID, "tier": tier, "seed": seed, "level": "proof",
        "coverage": {
            "obligations": obligations, "discharged": discharged,
            "checker_cmd": "lake build " + " ".join(mod.LEAN_MODULES) + " " + leanio.exe_target(mod.PID) + " && lake env lean Mouette/Audit/Audit_*.lean  (Lean 4.33.0 kernel; axioms collected per theorem from the compiled environment)",
            "trusted_base": list(getattr(mod, "TRUSTED", [])),
            "theorems": {t: axs for t, axs in sorted(thms.items())},
            "evaluations": res.evaluations,
            "distinct_nontrivial": len(res.nontrivial_ids),
            "rule": getattr(mod, "RULE", ""),
            "samples": res.samples[:5],
            "distribution": dict(sorted(res.dist.items())),
            "translated_sites": sites,
            "correspondence_mismatches": len(res.mismatches),
            "known_findings_seen": [e["key"] for e in known_seen],
            "broken_obligations": broken,
            "leanchecker_recheck": rechecked,
        },
        "assumptions": list(getattr(mod, "ASSUMPTIONS", [])),
        "wall_s": round(time.time() - t0, 2),
        "violations": violations,
    }
    try:
        ev["coverage"].update(_source_map(mod))
    except Exception as e:  # informational only: never turns a run into an alarm
        ev["coverage"]["source_map_error"] = repr(e)
    with open(os.path.join(EVID, f"{mod.PID}.json"), "w") as f:
        json.dump(ev, f, indent=1, sort_keys=True, default=str)


def _source_map(mod):
    """Which functions of the files the property is anchored in are translated from the working tree on every run, which are
    hand-modelled (tied by the correspondence run only), which are only seen by the oracle, which are out of scope.  The property
    module declares SOURCE_MAP = {"<file>::<qualified name>": status}; the functions actually defined in the anchor files of
    $MOUETTE_REPO are enumerated here (Python ast) so that the evidence also lists what the map does not mention (informational)."""
    import ast
    smap = getattr(mod, "SOURCE_MAP", None)
    if not smap:
        return {}
    repo = os.environ.get("MOUETTE_REPO", "/repo")
    anchors = []
    with open(os.path.join(ROOT, "properties.jsonl")) as f:
        for line in f:
            rec = json.loads(line)
            if rec["id"] == mod.PID:
                anchors = rec.get("anchors", {}).get("files", [])
    defined = set()
    for rel in anchors:
        path = os.path.join(repo, rel)
        if not os.path.isfile(path):
            continue
        tree = ast.parse(open(path).read())

        def walk(node, prefix):
            for ch in ast.iter_child_nodes(node):
                if isinstance(ch, (ast.FunctionDef, ast.AsyncFunctionDef)):
                    defined.add(f"{rel}::{prefix}{ch.name}")
                    walk(ch, f"{prefix}{ch.name}.")
                elif isinstance(ch, ast.ClassDef):
                    walk(ch, f"{prefix}{ch.name}.")
        walk(tree, "")
    counts = {}
    for k, v in smap.items():
        kind = v.split(":")[0].strip()
        counts[kind] = counts.get(kind, 0) + 1
    return {"source_map_counts": dict(sorted(counts.items())),
            "source_map": dict(sorted(smap.items())),
            "source_functions_in_anchor_files": len(defined),
            "source_functions_not_in_map": sorted(defined - set(smap)),
            "source_map_entries_not_in_source": sorted(k for k in smap if k not in defined and k.split("::")[0] in anchors)}
