"""Translator for a small imperative Python subset (nested `for` over `range`/`enumerate`, `if`/`else`,
leading `if c: break`, integer assignments, `X.append(t)` / `X += [t, ...]`) into a *pure functional* Lean 4
term of type `List α` that lists, in execution order, what the loop nest appends to one container.

    emits(stmts) ::=  []                                                     (no statement left)
       for v in range(a?, e): B ; R    ->  ((List.range' a (e-a)).flatMap fun v => emits(B)) ++ emits(R)
       for v,_ in enumerate(L): B ; R  ->  same with the known length of L
       for _ in (x1,..,xk): B ; R      ->  ((List.range k).flatMap fun _ => emits(B)) ++ emits(R)
       body starting with `if c: break` -> the range is cut by `takeWhile (fun v => ¬c)`
       if c: A else: B ; R             ->  (if c then emits(A) else emits(B)) ++ emits(R)
       x = <int expr> ; R              ->  (let x := e; emits(R))
       C.append(t) ; R                 ->  [t] ++ emits(R)           (C the container of interest)
       C += [t1,..,tk] ; R             ->  [t1,..,tk] ++ emits(R)
       anything else not touching C    ->  emits(R)
Integers are modelled as `Nat` (`-` truncates: the theorems carry the admissibility hypotheses under which no
subtraction underflows; the correspondence run compares the evaluated term with the implementation).
Anything outside the subset that touches the container raises TranslateError (a broken obligation).
"""
import ast

from .translate import TranslateError

_BIN = {ast.Add: "+", ast.Sub: "-", ast.Mult: "*", ast.FloorDiv: "/", ast.Mod: "%"}
_CMP = {ast.Lt: "<", ast.LtE: "≤", ast.Gt: ">", ast.GtE: "≥", ast.Eq: "=", ast.NotEq: "≠"}


class Ctx:
    def __init__(self, container, attr, ints, bools, lengths=None, nverts_expr=None, elem="face"):
        self.container = container      # name of the RawMeshData variable (e.g. 'out')
        self.attr = attr                # 'faces' | 'vertices'
        self.ints = set(ints)           # names known to hold ints
        self.bools = set(bools)
        self.lengths = dict(lengths or {})   # name -> Lean length expr (np.linspace(a,b,n) -> n)
        self.nverts_expr = nverts_expr  # Lean expr for len(X.vertices) (final vertex count)
        self.elem = elem                # 'face': tuples of ints ; 'unit': count only

    def child(self, **kw):
        c = Ctx(self.container, self.attr, self.ints, self.bools, self.lengths, self.nverts_expr, self.elem)
        for k, v in kw.items(): setattr(c, k, v)
        return c


def iexpr(node, cx):
    if isinstance(node, ast.Constant) and isinstance(node.value, int) and not isinstance(node.value, bool):
        return str(node.value)
    if isinstance(node, ast.Name):
        if node.id in cx.ints: return node.id
        raise TranslateError(f"name {node.id} is not a known integer")
    if isinstance(node, ast.BinOp) and type(node.op) in _BIN:
        return f"({iexpr(node.left, cx)} {_BIN[type(node.op)]} {iexpr(node.right, cx)})"
    if isinstance(node, ast.IfExp):
        return f"(if {cond(node.test, cx)} then {iexpr(node.body, cx)} else {iexpr(node.orelse, cx)})"
    if (isinstance(node, ast.Call) and isinstance(node.func, ast.Name) and node.func.id == "len" and len(node.args) == 1
            and isinstance(node.args[0], ast.Attribute) and node.args[0].attr == "vertices"):
        if cx.nverts_expr is None: raise TranslateError("len(.vertices) used but vertex count unknown")
        return f"({cx.nverts_expr})"
    raise TranslateError(f"unsupported integer expression {ast.dump(node)[:90]}")


def cond(node, cx):
    if isinstance(node, ast.Name) and node.id in cx.bools:
        return f"{node.id} = true"
    if isinstance(node, ast.UnaryOp) and isinstance(node.op, ast.Not):
        return f"¬({cond(node.operand, cx)})"
    if isinstance(node, ast.BoolOp):
        op = " ∧ " if isinstance(node.op, ast.And) else " ∨ "
        return "(" + op.join(cond(v, cx) for v in node.values) + ")"
    if isinstance(node, ast.Compare) and len(node.ops) == 1 and type(node.ops[0]) in _CMP:
        return f"({iexpr(node.left, cx)} {_CMP[type(node.ops[0])]} {iexpr(node.comparators[0], cx)})"
    raise TranslateError(f"unsupported condition {ast.dump(node)[:90]}")


def _is_container(node, cx):
    return (isinstance(node, ast.Attribute) and node.attr == cx.attr and isinstance(node.value, ast.Name)
            and node.value.id == cx.container)


def _touches(node, cx):
    """does `node` contain an emission to (or any other mutation of) the container of interest?"""
    for n in ast.walk(node):
        if isinstance(n, ast.Call) and isinstance(n.func, ast.Attribute) and _is_container(n.func.value, cx) \
                and n.func.attr in ("append", "extend", "insert", "pop", "clear", "remove"):
            return True
        if isinstance(n, ast.AugAssign) and _is_container(n.target, cx): return True
        if isinstance(n, ast.Assign) and any(_is_container(t, cx) for t in n.targets): return True
        if isinstance(n, (ast.Assign, ast.Delete)) and cx.elem != "unit":
            for t in n.targets:
                if isinstance(t, ast.Subscript) and _is_container(t.value, cx): return True
    return False


def _own_breaks(stmts):
    """break/continue statements belonging to this loop level (not to a nested loop)"""
    out = []
    def walk(ss):
        for s in ss:
            if isinstance(s, (ast.Break, ast.Continue)): out.append(s)
            elif isinstance(s, (ast.For, ast.While)): continue
            else:
                for f in ("body", "orelse", "finalbody"):
                    walk(getattr(s, f, []) or [])
    walk(stmts)
    return out


def _elem(node, cx):
    if cx.elem == "unit":
        return "()"
    if isinstance(node, (ast.Tuple, ast.List)):
        return "[" + ", ".join(iexpr(e, cx) for e in node.elts) + "]"
    raise TranslateError(f"appended element is not a tuple of ints: {ast.dump(node)[:80]}")


def _range_of(it, cx):
    """returns (start, count) Lean exprs for the iteration domain, and the loop variable target handling"""
    if isinstance(it, ast.Call) and isinstance(it.func, ast.Name) and it.func.id == "range":
        if len(it.args) == 1: return "0", iexpr(it.args[0], cx)
        if len(it.args) == 2:
            a, b = iexpr(it.args[0], cx), iexpr(it.args[1], cx)
            return a, f"({b} - {a})"
        raise TranslateError("range with step")
    if isinstance(it, ast.Call) and isinstance(it.func, ast.Name) and it.func.id == "enumerate" and \
            isinstance(it.args[0], ast.Name) and it.args[0].id in cx.lengths:
        return "0", cx.lengths[it.args[0].id]
    if isinstance(it, ast.Tuple):
        return "0", str(len(it.elts))
    if isinstance(it, ast.Name) and it.id in cx.lengths:
        return "0", cx.lengths[it.id]
    raise TranslateError(f"unsupported iteration domain {ast.dump(it)[:80]}")


def emits(stmts, cx):
    """Lean term (string) for what `stmts` append to the container, in order."""
    if not stmts:
        return "[]"
    s, rest = stmts[0], stmts[1:]
    # ---- for --------------------------------------------------------------------------------
    if isinstance(s, ast.For):
        if s.orelse: raise TranslateError("for-else")
        if not _touches(s, cx):
            # loop irrelevant for this container, but integer state assigned inside does not escape
            return emits(rest, cx)
        start, count = _range_of(s.iter, cx)
        tgt = s.target
        if isinstance(tgt, ast.Tuple) and isinstance(s.iter, ast.Call) and s.iter.func.id == "enumerate":
            var = tgt.elts[0].id
        elif isinstance(tgt, ast.Name):
            var = tgt.id if isinstance(s.iter, ast.Call) else "_" + tgt.id
        else:
            raise TranslateError("unsupported loop target")
        inner = cx.child(ints=set(cx.ints) | ({var} if not var.startswith("_") else set()))
        body = list(s.body)
        dom = f"(List.range' {start} {count})" if start != "0" else f"(List.range {count})"
        if body and isinstance(body[0], ast.If) and len(body[0].body) == 1 and isinstance(body[0].body[0], ast.Break) \
                and not body[0].orelse:
            dom = f"({dom}.takeWhile (fun {var} => decide (¬({cond(body[0].test, inner)}))))"
            body = body[1:]
        if _own_breaks(body):
            raise TranslateError("break/continue outside the leading-guard position")
        head = f"({dom}.flatMap (fun {var} => {emits(body, inner)}))"
        return _app(head, emits(rest, cx))
    # ---- if ---------------------------------------------------------------------------------
    if isinstance(s, ast.If):
        if not _touches(s, cx):
            return emits(rest, cx)
        c = cond(s.test, cx)
        return _app(f"(if {c} then {emits(list(s.body), cx)} else {emits(list(s.orelse), cx)})", emits(rest, cx))
    # ---- assignments ------------------------------------------------------------------------
    if isinstance(s, ast.Assign) and len(s.targets) == 1:
        t = s.targets[0]
        if _is_container(t, cx) or (isinstance(t, ast.Subscript) and _is_container(t.value, cx) and cx.elem != "unit"):
            raise TranslateError("container is reassigned / written by index")
        pairs = []
        if isinstance(t, ast.Name): pairs = [(t.id, s.value)]
        elif isinstance(t, ast.Tuple) and isinstance(s.value, ast.Tuple) and len(t.elts) == len(s.value.elts) \
                and all(isinstance(e, ast.Name) for e in t.elts):
            pairs = [(e.id, v) for e, v in zip(t.elts, s.value.elts)]
        new = cx.child(ints=set(cx.ints), lengths=dict(cx.lengths))
        lets = []
        for name, val in pairs:
            # np.linspace(a, b, n) -> a sequence of known length n
            if isinstance(val, ast.Call) and isinstance(val.func, ast.Attribute) and val.func.attr == "linspace" and len(val.args) == 3:
                new.lengths[name] = iexpr(val.args[2], cx); continue
            try:
                e = iexpr(val, cx)   # simultaneous assignment: evaluate in the OLD context
                lets.append((name, e))
            except TranslateError:
                new.ints.discard(name)
        for name, _ in lets: new.ints.add(name)
        tail = emits(rest, new)
        if len(lets) > 1 and any(n in e for n, _ in lets for _, e in lets):
            raise TranslateError("simultaneous assignment with dependencies")
        for name, e in reversed(lets):
            tail = f"(let {name} := {e}; {tail})"
        return tail
    # ---- emissions ---------------------------------------------------------------------------
    if isinstance(s, ast.Expr) and isinstance(s.value, ast.Call) and isinstance(s.value.func, ast.Attribute) \
            and s.value.func.attr == "append" and _is_container(s.value.func.value, cx):
        return _app(f"[{_elem(s.value.args[0], cx)}]", emits(rest, cx))
    if isinstance(s, ast.AugAssign) and _is_container(s.target, cx):
        if not isinstance(s.op, ast.Add) or not isinstance(s.value, ast.List):
            raise TranslateError("container updated by something else than += [literal list]")
        return _app("[" + ", ".join(_elem(e, cx) for e in s.value.elts) + "]", emits(rest, cx))
    if isinstance(s, ast.Return):
        return "[]"
    if isinstance(s, (ast.While, ast.With, ast.Try)) and _touches(s, cx):
        raise TranslateError(f"{type(s).__name__} touching the container")
    if _touches(s, cx):
        raise TranslateError(f"unsupported statement mutating the container: {ast.dump(s)[:100]}")
    return emits(rest, cx)


def _app(a, b):
    if b == "[]": return a
    if a == "[]": return b
    return f"({a} ++ {b})"
